import sys
sys.path.insert(0, '/verif/engine')
from vp import *

qc = lambda d: d[2]
qn = lambda d: d[3]
qb = lambda d: d[0] > 0.5

import numpy as _rnp
ident = lambda a: a
APCFG = [(4, 0.0, 4.0), (10, 0.0, 1.0), (3, 0.0, 0.3), (7, -1.0 / 3.0, 2.0 / 3.0), (7, 0.0, 1.005), (9, 0.0, 0.9), (11, -0.55, 0.55),
         (100, 1e6 + 0.1, 1e6 + 10.1), (5, -1e-3, 1e-3), (6, 0.1, 0.7), (13, 0.0, 1.3), (1, -1.0, 1.0)]

def body(T, tick):
    with NT():
        num, low, high = APCFG[4]
        h = H.Bin(num, low, high, ident)
        for i in range(num): h.fill(low + (i + 0.5) * (high - low) / num, float(i + 1))
        res = ""
        c = list(h.bin_centers()); e = list(h.bin_edges()); n = h.num_bins(); v = list(h.bin_entries())
        if not (len(c) == num and n == num and len(e) == num + 1 and len(v) == num): res = "full-range-accessors-disagree-on-the-number-of-bins:%d centres %d edges %d entries num_bins %d for %d bins" % (len(c), len(e), len(v), n, num)
        if not res and not all(e[i] < c[i] < e[i + 1] for i in range(num)): res = "a-centre-lies-outside-the-edges-of-its-bin"
        if not res and v != [float(i + 1) for i in range(num)]: res = "bin_entries-differ-from-what-was-filled"
        if not res and max(abs(low), abs(high)) <= 10.0:   # the accessors compare with np.isclose (relative 1e-5): sub-ranges only where that is far below a bin width
            mids = [low + (i + 0.5) * (high - low) / num for i in range(num)]
            pick = sorted(set([0, num // 3, num // 2, num - 1]))
            for i in pick:
                for j in pick:
                    if i >= j: continue
                    lo, hi = mids[i], mids[j]
                    cc = list(h.bin_centers(lo, hi)); ee = list(h.bin_edges(lo, hi)); nn = h.num_bins(lo, hi); vv = list(h.bin_entries(lo, hi))
                    if not (len(cc) == nn == len(vv) == len(ee) - 1 == j - i + 1):
                        res = res or "sub-range-accessors-disagree:%d..%d gives %d centres %d edges %d entries num_bins %d" % (i, j, len(cc), len(ee), len(vv), nn)
                    elif vv != [float(t + 1) for t in range(i, j + 1)]:
                        res = res or "sub-range-entries-differ-from-what-was-filled:%d..%d" % (i, j)
    if res: return res
    if tick < 0: return "unreachable"
    return "REACHED" if T else ""

def h(tick: int) -> str:
    """
    pre: 0 <= tick <= 0
    post: _ == ""
    """
    return body(False, tick)

def reach(tick: int) -> str:
    """
    pre: 0 <= tick <= 0
    post: _ != "REACHED"
    """
    return body(True, tick)


if __name__ == "__main__":
    import traceback
    try:
        _r = h(0)
    except Exception as _e:
        traceback.print_exc()
        print("REPLAY-RESULT: EXC:" + type(_e).__name__)
        sys.exit(1)
    print("REPLAY-RESULT: " + repr(_r))
    sys.exit(0 if _r in ("", "REACHED") else 1)
