import sys
sys.path.insert(0, '/verif/engine')
from vp import *

qc = lambda d: d[2]
qn = lambda d: d[3]
qb = lambda d: d[0] > 0.5

def mkq(level, base, wrong):
    def q(d):
        m = d[4]
        if m == 2 * level - 1:
            raise ValueError("injected failure at level %d" % level)
        if m == 2 * level:
            return wrong
        return base(d)
    return q
Q3 = mkq(3, lambda d: d[2], "oops")
Q2 = mkq(2, lambda d: d[1], "oops")
Q1 = mkq(1, lambda d: d[0], "oops")
MK = lambda: H.SparselyBin(1.0, Q1, H.Bin(2, 0.0, 2.0, Q2, H.Sum(Q3)))

def body(T, w0, w1, m):
    h = fresh(MK, 1)[0]
    ok = (0.5, 0.25, 0.75, 0.0, 0)
    h.fill(ok, w0)
    before = J(h)
    bad = (0.5, 0.25, 0.75, 0.0, m)
    try:
        h.fill(bad, w1)
    except Exception:
        if not jsame(J(h), before): return "failing-weighted-fill-changed-state"
        return "REACHED" if T else ""
    if m != 0: return ""
    return "REACHED" if T else ""

def h(w0: float, w1: float, m: int) -> str:
    """
    pre: w0 > 0.0 and w0 < 1e300 and w1 > 0.0 and w1 < 1e300 and 1 <= m <= 6
    post: _ == ""
    """
    return body(False, w0, w1, m)

def reach(w0: float, w1: float, m: int) -> str:
    """
    pre: w0 > 0.0 and w0 < 1e300 and w1 > 0.0 and w1 < 1e300 and 1 <= m <= 6
    post: _ != "REACHED"
    """
    return body(True, w0, w1, m)


if __name__ == "__main__":
    import traceback
    try:
        _r = h(2.792252144535135e-232, 2.2131618651111338e-221, 6)
    except Exception as _e:
        traceback.print_exc()
        print("REPLAY-RESULT: EXC:" + type(_e).__name__)
        sys.exit(1)
    print("REPLAY-RESULT: " + repr(_r))
    sys.exit(0 if _r in ("", "REACHED") else 1)
