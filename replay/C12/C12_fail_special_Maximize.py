import sys
sys.path.insert(0, '/verif/engine')
from vp import *

qc = lambda d: d[2]
qn = lambda d: d[3]
qb = lambda d: d[0] > 0.5

def mkq(level, base, wrong):
    def q(d):
        m = d[4]
        if m == 2 * level - 1:
            raise ValueError("injected failure at level %d" % level)
        if m == 2 * level:
            return wrong
        return base(d)
    return q

def body(T, x1, x2, m, use_cache):
    state = [0]
    def qf(d):
        if d[4] == 1: raise ValueError("injected")
        if d[4] == 2: return 10 ** 400
        return d[0]
    with NT():
        h = H.Maximize(U.cached(qf)) if use_cache else H.Maximize(qf)
        twin = H.Maximize((lambda d: d[0]))
        h._checkForCrossReferences(); twin._checkForCrossReferences()
    recs = [(x1, 0.0, 0.0, 0.0, 0), (x2, 0.0, 0.0, 0.0, m), (x2, 0.0, 0.0, 0.0, 0)]
    for r in recs:
        before = J(h)
        try:
            h.fill(r)
        except Exception:
            if not jsame(J(h), before): return "failing-fill-changed-state"
            continue
        twin.fill(r)
    jh, jt = J(h)["data"], J(twin)["data"]
    jh = dict((k, v) for k, v in jh.items() if k != "name"); jt = dict((k, v) for k, v in jt.items() if k != "name")
    if not jeq(jh, jt): return "final-state-differs-from-surviving-records"
    return "REACHED" if T else ""

def h(x1: float, x2: float, m: int, use_cache: bool) -> str:
    """
    pre: 1 <= m <= 2
    post: _ == ""
    """
    return body(False, x1, x2, m, use_cache)

def reach(x1: float, x2: float, m: int, use_cache: bool) -> str:
    """
    pre: 1 <= m <= 2
    post: _ != "REACHED"
    """
    return body(True, x1, x2, m, use_cache)


if __name__ == "__main__":
    import traceback
    try:
        _r = h(0.0, 0.0, 2, False)
    except Exception as _e:
        traceback.print_exc()
        print("REPLAY-RESULT: EXC:" + type(_e).__name__)
        sys.exit(1)
    print("REPLAY-RESULT: " + repr(_r))
    sys.exit(0 if _r in ("", "REACHED") else 1)
