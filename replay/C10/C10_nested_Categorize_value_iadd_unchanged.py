import sys
sys.path.insert(0, '/verif/engine')
from vp import *

qc = lambda d: d[2]
qn = lambda d: d[3]
qb = lambda d: d[0] > 0.5
MKS = [(lambda: H.Categorize(qc, H.Sum(qy))), (lambda: H.Categorize(qc, H.Average(qy))), (lambda: H.Categorize(qc, H.Bin(2, 0.0, 2.0, qy))), (lambda: H.Categorize(qc, H.Bin(3, 0.0, 2.0, qy))), (lambda: H.Categorize(qc, H.Minimize(qy))), (lambda: H.Categorize(qc, H.Count()))]

def body(T, k1, k2, x1, x2):
    mka = MKS[k1]; mkb = MKS[k2]
    with NT():
        a = mka()
        b = mkb()
    d1 = (x1, 0.25, "a", 1.0); d2 = (x2, 0.75, "a", 1.0)
    a.fill(d1); b.fill(d2)
    ja, jb = J(a), J(b)

    def _iadd(p, q):
        p += q
    r = raises(_iadd, a, b)

    if r is not None:
        if not jeq(J(a), ja): return "rejected-merge-changed-left-operand"
        if not jeq(J(b), jb): return "rejected-merge-changed-right-operand"
    return "REACHED" if T else ""

def h(k1: int, k2: int, x1: float, x2: float) -> str:
    """
    pre: 0 <= k1 < 6 and 0 <= k2 < 6 and -2.0 <= x1 < 2.0 and -2.0 <= x2 < 2.0
    post: _ == ""
    """
    return body(False, k1, k2, x1, x2)

def reach(k1: int, k2: int, x1: float, x2: float) -> str:
    """
    pre: 0 <= k1 < 6 and 0 <= k2 < 6 and -2.0 <= x1 < 2.0 and -2.0 <= x2 < 2.0
    post: _ != "REACHED"
    """
    return body(True, k1, k2, x1, x2)


if __name__ == "__main__":
    import traceback
    try:
        _r = h(3, 2, 0.0, 0.0)
    except Exception as _e:
        traceback.print_exc()
        print("REPLAY-RESULT: EXC:" + type(_e).__name__)
        sys.exit(1)
    print("REPLAY-RESULT: " + repr(_r))
    sys.exit(0 if _r in ("", "REACHED") else 1)
