import sys
sys.path.insert(0, '/verif/engine')
from vp import *

qc = lambda d: d[2]
qn = lambda d: d[3]
qb = lambda d: d[0] > 0.5
MKS = [(lambda: H.Bin(2, 0.0, 2.0, qx, H.Count(), H.Count(), H.Count(), H.Sum(qy))), (lambda: H.Bin(2, 0.0, 2.0, qx, H.Count(), H.Count(), H.Count(), H.Average(qy))), (lambda: H.Bin(2, 0.0, 2.0, qx, H.Count(), H.Count(), H.Count(), H.Bin(2, 0.0, 2.0, qy))), (lambda: H.Bin(2, 0.0, 2.0, qx, H.Count(), H.Count(), H.Count(), H.Bin(3, 0.0, 2.0, qy)))]
TYPES = ['H.Sum', 'H.Average', 'H.Bin', 'H.Bin']
VARIANT = 'live'

def body(T, k1, k2, x1, x2, c2):
    ra, rb, fa, fb = False, False, True, True
    mka = MKS[k1]; mkb = MKS[k2]
    with NT():
        a = mka()
        b = mkb()
    d1 = (x1, 0.25, "a", 1.0); d2 = (x2, 0.75, sel(c2, "a", "b"), 1.0)
    if fa and VARIANT == "numpy-left":
        import gen_shim_np as _g
        with _g.NPM():
            a.fill.numpy(_g.columns([d1]))
    elif fa: a.fill(d1)
    if fb: b.fill(d2)
    if VARIANT.startswith("deeper"):
        with NT():   # history: compatible merges of the same shapes have happened before in this process
            for mk in MKS:
                u, v = mk(), mk()
                u.fill((0.5, 0.25, "a", 1.0)); v.fill((1.5, 0.75, "b", 1.0))
                w_ = u + v; u += v; ru = Factory.fromJson(J(u)); w2 = ru + Factory.fromJson(J(v))
    if ra: a = Factory.fromJson(J(a))   # immutable form (no value templates)
    if rb: b = Factory.fromJson(J(b))
    ja, jb = J(a), J(b)

    def _iadd(p, q):
        p += q
    r = raises(_iadd, a, b)

    if r is not None:
        if not jeq(J(a), ja): return "rejected-merge-changed-left-operand"
        if not jeq(J(b), jb): return "rejected-merge-changed-right-operand"
    return "REACHED" if T else ""

def h(k1: int, k2: int, x1: float, x2: float, c2: int) -> str:
    """
    pre: 0 <= k1 < 4 and 0 <= k2 < 4 and -2.0 <= x1 < 2.0 and -2.0 <= x2 < 2.0 and 0 <= c2 <= 1
    post: _ == ""
    """
    return body(False, k1, k2, x1, x2, c2)

def reach(k1: int, k2: int, x1: float, x2: float, c2: int) -> str:
    """
    pre: 0 <= k1 < 4 and 0 <= k2 < 4 and -2.0 <= x1 < 2.0 and -2.0 <= x2 < 2.0 and 0 <= c2 <= 1
    post: _ != "REACHED"
    """
    return body(True, k1, k2, x1, x2, c2)


if __name__ == "__main__":
    import traceback
    try:
        _r = h(1, 2, 0.0, 1.0, 1)
    except Exception as _e:
        traceback.print_exc()
        print("REPLAY-RESULT: EXC:" + type(_e).__name__)
        sys.exit(1)
    print("REPLAY-RESULT: " + repr(_r))
    sys.exit(0 if _r in ("", "REACHED") else 1)
