import sys
sys.path.insert(0, '/verif/engine')
from vp import *

qc = lambda d: d[2]
qn = lambda d: d[3]
qb = lambda d: d[0] > 0.5

import npmodel
if SYMBOLIC:
    ARR = lambda xs: npmodel.array(xs)
    SARR = lambda xs: npmodel.array(xs)
    NPM = npmodel.installed
else:
    import numpy as _np
    ARR = lambda xs: _np.array(xs, dtype=float)
    SARR = lambda xs: _np.array(xs)
    NPM = NT

def dropzero(doc):
    """remove sparse bins / categories that hold zero weight (the property compares content up to those)"""
    if isinstance(doc, dict):
        out = {}
        for k, v in doc.items():
            if k == "bins" and isinstance(v, dict):
                kept = {}
                for bk, bv in v.items():
                    e = bv["entries"] if isinstance(bv, dict) else bv
                    if e != 0.0:
                        kept[bk] = dropzero(bv)
                out[k] = kept
            else:
                out[k] = dropzero(v)
        return out
    if isinstance(doc, list):
        return [dropzero(v) for v in doc]
    return doc

class Cols:
    """column store: data[i] is column i (what the row quantities index), data[mask] is the row-filtered store
    (the slicing some multi-dimensional paths apply to `data`, as a DataFrame or record array supports)"""
    def __init__(self, cols):
        self.cols = tuple(cols)
    def __getitem__(self, k):
        if isinstance(k, int):
            return self.cols[k]
        return Cols([c[k] for c in self.cols])
    def __len__(self):
        return len(self.cols)

def columns(data):
    return Cols((ARR([d[0] for d in data]), ARR([d[1] for d in data]), SARR([d[2] for d in data]), ARR([d[3] for d in data])))

def inv(h, total):
    """None if every bookkeeping invariant of the property holds for the subtree at h (whose entries must equal total)"""
    t = h.name
    e = h.entries
    if not (e >= 0.0): return t + ".entries-negative"
    if total is not None and e != total: return t + ".entries-differs-from-accepted-weight"
    if t == "Bin":
        s = h.underflow.entries + h.overflow.entries + h.nanflow.entries
        for v in h.values: s = s + v.entries
        if s != e: return "Bin.bins-plus-flows-differ-from-entries"
        subs = list(h.values) + [h.underflow, h.overflow, h.nanflow]
    elif t == "SparselyBin":
        s = h.nanflow.entries
        for v in h.bins.values(): s = s + v.entries
        if s != e: return "SparselyBin.bins-plus-nanflow-differ-from-entries"
        subs = list(h.bins.values()) + [h.nanflow]
    elif t in ("CentrallyBin", "IrregularlyBin"):
        s = h.nanflow.entries
        for c, v in h.bins: s = s + v.entries
        if s != e: return t + ".bins-plus-nanflow-differ-from-entries"
        subs = [v for c, v in h.bins] + [h.nanflow]
    elif t == "Stack":
        lv = [v.entries for c, v in h.bins]
        for i in range(len(lv) - 1):
            if lv[i] < lv[i + 1]: return "Stack.levels-increase"
        if lv[0] + h.nanflow.entries != e: return "Stack.level0-plus-nanflow-differ-from-entries"
        subs = [v for c, v in h.bins] + [h.nanflow]
    elif t == "Categorize":
        s = 0.0
        for v in h.bins.values(): s = s + v.entries
        if s != e: return "Categorize.bins-differ-from-entries"
        subs = list(h.bins.values())
    elif t in ("Label", "UntypedLabel", "Index", "Branch"):
        subs = list(h.values)
        for v in subs:
            if v.entries != e: return t + ".child-entries-differ-from-parent"
    elif t == "Fraction":
        if h.denominator.entries != e: return "Fraction.denominator-differs-from-entries"
        subs = [h.numerator, h.denominator]
    elif t == "Select":
        subs = [h.cut]
    elif t == "Bag":
        s = 0.0
        for w in h.values.values(): s = s + w
        if s != e: return "Bag.weights-differ-from-entries"
        subs = []
    else:
        subs = []
    for v in subs:
        r = inv(v, None)
        if r is not None: return r
    return None
MK = lambda: H.Stack([1.0, 0.0], qx)

def body(T, x1, w1, x2, w2, x3, w3):
    data = [(x1, 0.0, "c", 0.0), (x2, 0.0, "c", 0.0), (x3, 0.0, "c", 0.0)]
    ws = [w1, w2, w3]
    a, b = fresh(MK, 2)
    ga = 0.0; gb = 0.0
    a.fill(data[0], ws[0]); ga = ga + (ws[0] if ws[0] > 0.0 else 0.0)
    r = inv(a, ga)
    if r is not None: return "after fa: " + r
    r = inv(b, gb)
    if r is not None: return "pool-b after fa: " + r
    WA = ARR([ws[1], ws[1+1]])
    with NPM():
        a.fill.numpy(columns(data[1:1+2]), WA)
    ga = ga + ws[1] + ws[1+1]
    r = inv(a, ga)
    if r is not None: return "after np: " + r
    r = inv(b, gb)
    if r is not None: return "pool-b after np: " + r
    return "REACHED" if T else ""

def h(x1: float, w1: float, x2: float, w2: float, x3: float, w3: float) -> str:
    """
    pre: w1 >= 0.0 and w2 >= 0.0 and w3 >= 0.0
    post: _ == ""
    """
    return body(False, x1, w1, x2, w2, x3, w3)

def reach(x1: float, w1: float, x2: float, w2: float, x3: float, w3: float) -> str:
    """
    pre: w1 >= 0.0 and w2 >= 0.0 and w3 >= 0.0
    post: _ != "REACHED"
    """
    return body(True, x1, w1, x2, w2, x3, w3)


if __name__ == "__main__":
    import traceback
    try:
        _r = h(0.0, 1.0, 0.0, 1.0, 0.0, 1.0)
    except Exception as _e:
        traceback.print_exc()
        print("REPLAY-RESULT: EXC:" + type(_e).__name__)
        sys.exit(1)
    print("REPLAY-RESULT: " + repr(_r))
    sys.exit(0 if _r in ("", "REACHED") else 1)
