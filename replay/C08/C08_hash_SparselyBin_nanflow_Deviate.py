import sys
sys.path.insert(0, '/verif/engine')
from vp import *

qc = lambda d: d[2]
qn = lambda d: d[3]
qb = lambda d: d[0] > 0.5
MK = lambda: H.SparselyBin(1.0, qx, H.Count(), H.Deviate(qy))

def body(T, k):
    a = fresh(MK, 1)[0]
    a.fill((0.5, 1.5, "a", 1.0)); a.fill((k * 1.0, 0.25, "b", 2.5))
    s = a * 0.5
    h1 = hash(s)
    s2 = a * 0.5
    if hash(s2) != h1: return "hash-of-equal-scaled-results-differs"
    txt = repr(s)
    ch = s.children
    jj = J(s)
    return "REACHED" if T else ""

def h(k: int) -> str:
    """
    pre: 0 <= k <= 2
    post: _ == ""
    """
    return body(False, k)

def reach(k: int) -> str:
    """
    pre: 0 <= k <= 2
    post: _ != "REACHED"
    """
    return body(True, k)


if __name__ == "__main__":
    import traceback
    try:
        _r = h(0)
    except Exception as _e:
        traceback.print_exc()
        print("REPLAY-RESULT: EXC:" + type(_e).__name__)
        sys.exit(1)
    print("REPLAY-RESULT: " + repr(_r))
    sys.exit(0 if _r in ("", "REACHED") else 1)
