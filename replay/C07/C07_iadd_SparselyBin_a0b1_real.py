import sys
sys.path.insert(0, '/verif/engine')
from vp import *

qc = lambda d: d[2]
qn = lambda d: d[3]
qb = lambda d: d[0] > 0.5
MK = lambda: H.SparselyBin(1.0, qx, H.Count())

def body(T, bx1, ex1):
    adata = []
    aws = []
    bdata = [(bx1, 0.0, None, 0.0)]
    bws = [1.0]
    edata = [(ex1, 0.0, None, 0.0)]
    ews = [1.0]

    a, a0, b = fresh(MK, 3)
    for d in adata: a.fill(d); a0.fill(d)
    for d in bdata: b.fill(d)
    expected = J(a0 + b)
    jb = J(b)
    ida = id(a)
    a += b
    if id(a) != ida: return "not-same-object"
    if not jeq(J(a), expected): return "iadd-differs-from-add"
    if not jeq(J(b), jb): return "right-operand-changed"
    ja = J(a)
    b.fill(edata[0])
    if not jeq(J(a), ja): return "later-fill-of-b-leaks-into-a"
    jb = J(b)
    a.fill(edata[0])
    if not jeq(J(b), jb): return "later-fill-of-a-leaks-into-b"
    return "REACHED" if T else ""

def h(bx1: float, ex1: float) -> str:
    """
    pre: -2.0 <= bx1 < 2.0 and -2.0 <= ex1 < 2.0
    post: _ == ""
    """
    return body(False, bx1, ex1)

def reach(bx1: float, ex1: float) -> str:
    """
    pre: -2.0 <= bx1 < 2.0 and -2.0 <= ex1 < 2.0
    post: _ != "REACHED"
    """
    return body(True, bx1, ex1)


if __name__ == "__main__":
    import traceback
    try:
        _r = h(0.0, 0.0)
    except Exception as _e:
        traceback.print_exc()
        print("REPLAY-RESULT: EXC:" + type(_e).__name__)
        sys.exit(1)
    print("REPLAY-RESULT: " + repr(_r))
    sys.exit(0 if _r in ("", "REACHED") else 1)
