import sys
sys.path.insert(0, '/verif/engine')
from vp import *

qc = lambda d: d[2]
qn = lambda d: d[3]
qb = lambda d: d[0] > 0.5
MK = lambda: H.Select(qb, H.SparselyBin(1.0, qy, H.Count()))

def body(T, ax1, ay1, bx1, by1, ex1, ey1):
    adata = [(ax1, ay1, None, 0.0)]
    aws = [1.0]
    bdata = [(bx1, by1, None, 0.0)]
    bws = [1.0]
    edata = [(ex1, ey1, None, 0.0)]
    ews = [1.0]

    a, a0, b = fresh(MK, 3)
    for d in adata: a.fill(d); a0.fill(d)
    for d in bdata: b.fill(d)
    expected = J(a0 + b)
    jb = J(b)
    ida = id(a)
    a += b
    if id(a) != ida: return "not-same-object"
    if not jeq(J(a), expected): return "iadd-differs-from-add"
    if not jeq(J(b), jb): return "right-operand-changed"
    ja = J(a)
    b.fill(edata[0])
    if not jeq(J(a), ja): return "later-fill-of-b-leaks-into-a"
    jb = J(b)
    a.fill(edata[0])
    if not jeq(J(b), jb): return "later-fill-of-a-leaks-into-b"
    return "REACHED" if T else ""

def h(ax1: float, ay1: float, bx1: float, by1: float, ex1: float, ey1: float) -> str:
    """
    pre: -2.0 <= ay1 < 2.0 and -2.0 <= by1 < 2.0 and -2.0 <= ey1 < 2.0
    post: _ == ""
    """
    return body(False, ax1, ay1, bx1, by1, ex1, ey1)

def reach(ax1: float, ay1: float, bx1: float, by1: float, ex1: float, ey1: float) -> str:
    """
    pre: -2.0 <= ay1 < 2.0 and -2.0 <= by1 < 2.0 and -2.0 <= ey1 < 2.0
    post: _ != "REACHED"
    """
    return body(True, ax1, ay1, bx1, by1, ex1, ey1)


if __name__ == "__main__":
    import traceback
    try:
        _r = h(0.0, 0.0, 1.5, 0.0, 0.75, 0.0)
    except Exception as _e:
        traceback.print_exc()
        print("REPLAY-RESULT: EXC:" + type(_e).__name__)
        sys.exit(1)
    print("REPLAY-RESULT: " + repr(_r))
    sys.exit(0 if _r in ("", "REACHED") else 1)
