import sys
sys.path.insert(0, '/verif/engine')
from vp import *

qc = lambda d: d[2]
qn = lambda d: d[3]
qb = lambda d: d[0] > 0.5
MK = lambda: H.Categorize(qc, H.Average(qx))

def body(T, ax1, ac1, bx1, bc1, ex1, ec1):
    adata = [(ax1, 0.0, sel(ac1, "a", "b"), 0.0)]
    aws = [1.0]
    bdata = [(bx1, 0.0, sel(bc1, "a", "b"), 0.0)]
    bws = [1.0]
    edata = [(ex1, 0.0, sel(ec1, "a", "b"), 0.0)]
    ews = [1.0]

    a, a0, b = fresh(MK, 3)
    for d in adata: a.fill(d); a0.fill(d)
    for d in bdata: b.fill(d)
    b = Factory.fromJson(J(b))   # the right operand arrives as JSON (fillsparksql does self += fromJson(...))

    expected = J(a0 + b)
    jb = J(b)
    ida = id(a)
    a += b
    if id(a) != ida: return "not-same-object"
    if not jeq(J(a), expected): return "iadd-differs-from-add"
    if not jeq(J(b), jb): return "right-operand-changed"
    ja = J(a)

    c2 = b + b
    if not jeq(J(a), ja): return "later-merge-of-b-leaks-into-a"

    jb = J(b)
    a.fill(edata[0])
    if not jeq(J(b), jb): return "later-fill-of-a-leaks-into-b"
    return "REACHED" if T else ""

def h(ax1: float, ac1: int, bx1: float, bc1: int, ex1: float, ec1: int) -> str:
    """
    pre: 0 <= ac1 < 2 and 0 <= bc1 < 2 and 0 <= ec1 < 2
    post: _ == ""
    """
    return body(False, ax1, ac1, bx1, bc1, ex1, ec1)

def reach(ax1: float, ac1: int, bx1: float, bc1: int, ex1: float, ec1: int) -> str:
    """
    pre: 0 <= ac1 < 2 and 0 <= bc1 < 2 and 0 <= ec1 < 2
    post: _ != "REACHED"
    """
    return body(True, ax1, ac1, bx1, bc1, ex1, ec1)


if __name__ == "__main__":
    import traceback
    try:
        _r = h(0.0, 1, 0.0, 0, 0.0, 0)
    except Exception as _e:
        traceback.print_exc()
        print("REPLAY-RESULT: EXC:" + type(_e).__name__)
        sys.exit(1)
    print("REPLAY-RESULT: " + repr(_r))
    sys.exit(0 if _r in ("", "REACHED") else 1)
