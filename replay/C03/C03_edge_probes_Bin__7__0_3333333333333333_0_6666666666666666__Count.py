import sys
sys.path.insert(0, '/verif/engine')
from vp import *

qc = lambda d: d[2]
qn = lambda d: d[3]
qb = lambda d: d[0] > 0.5

import npmodel
if SYMBOLIC:
    ARR = lambda xs: npmodel.array(xs)
    SARR = lambda xs: npmodel.array(xs)
    NPM = npmodel.installed
else:
    import numpy as _np
    ARR = lambda xs: _np.array(xs, dtype=float)
    SARR = lambda xs: _np.array(xs)
    NPM = NT

def dropzero(doc):
    """remove sparse bins / categories that hold zero weight (the property compares content up to those)"""
    if isinstance(doc, dict):
        out = {}
        for k, v in doc.items():
            if k == "bins" and isinstance(v, dict):
                kept = {}
                for bk, bv in v.items():
                    e = bv["entries"] if isinstance(bv, dict) else bv
                    if e != 0.0:
                        kept[bk] = dropzero(bv)
                out[k] = kept
            else:
                out[k] = dropzero(v)
        return out
    if isinstance(doc, list):
        return [dropzero(v) for v in doc]
    return doc

class Cols:
    """column store: data[i] is column i (what the row quantities index), data[mask] is the row-filtered store
    (the slicing some multi-dimensional paths apply to `data`, as a DataFrame or record array supports)"""
    def __init__(self, cols):
        self.cols = tuple(cols)
    def __getitem__(self, k):
        if isinstance(k, int):
            return self.cols[k]
        return Cols([c[k] for c in self.cols])
    def __len__(self):
        return len(self.cols)

def columns(data):
    return Cols((ARR([d[0] for d in data]), ARR([d[1] for d in data]), SARR([d[2] for d in data]), ARR([d[3] for d in data])))

import numpy as _rnp
import probes
BINS = [(4, 0.0, 4.0), (10, 0.0, 1.0), (3, 0.0, 0.3), (7, -1.0 / 3.0, 2.0 / 3.0), (100, 1e6 + 0.1, 1e6 + 10.1), (5, -1e-3, 1e-3), (10, -5.0, 5.0), (6, 0.1, 0.7)]
SPARSE = [(1.0, 0.0), (0.5, 0.25), (0.1, 0.0), (1.0 / 3.0, 1e6 + 0.1), (2.0, -7.0)]
CENTRES = [[0.0, 2.0], [-0.1, 0.2, 0.3], [-3.0, 1.1, 5.2], [0.1, 0.7, 1.3, 2.9]]
ident = lambda a: a

def _one(expr, cfg, CH, x, vec):
    h = eval(expr)
    if vec: h.fill.numpy(_rnp.array([x]))
    else: h.fill(x)
    return h.toJson()

def body(T, order):
    order = sel(order, 0, 1)
    with NT():
        cfg = BINS[3]
        CH = [lambda: H.Count(), lambda: H.Sum(ident)][0]
        xs = probes.edge_probes([cfg[1] + i * (cfg[2] - cfg[1]) / cfg[0] for i in range(cfg[0] + 1)])
        if order == 1: xs = xs[::-1]
        a = H.Bin(cfg[0], cfg[1], cfg[2], ident, CH()); b = H.Bin(cfg[0], cfg[1], cfg[2], ident, CH())
        for x in xs: a.fill(x)
        b.fill.numpy(_rnp.array(xs))
        ja, jb = dropzero(a.toJson()), dropzero(b.toJson())
        res = ""
        if not jclose(ja, jb):
            bad = [x for x in sorted(xs) if not jclose(dropzero(_one('H.Bin(cfg[0], cfg[1], cfg[2], ident, CH())', cfg, CH, x, False)), dropzero(_one('H.Bin(cfg[0], cfg[1], cfg[2], ident, CH())', cfg, CH, x, True)))]
            res = "edge-value-binned-differently-by-fill.numpy:x=%r" % (bad[:1] or ["?"])[0]
    if res: return res
    return "REACHED" if T else ""

def h(order: int) -> str:
    """
    pre: 0 <= order <= 1
    post: _ == ""
    """
    return body(False, order)

def reach(order: int) -> str:
    """
    pre: 0 <= order <= 1
    post: _ != "REACHED"
    """
    return body(True, order)


if __name__ == "__main__":
    import traceback
    try:
        _r = h(1)
    except Exception as _e:
        traceback.print_exc()
        print("REPLAY-RESULT: EXC:" + type(_e).__name__)
        sys.exit(1)
    print("REPLAY-RESULT: " + repr(_r))
    sys.exit(0 if _r in ("", "REACHED") else 1)
