"""E3: a stand-in for exactly the numpy entry points histogrammar's fill.numpy paths call, over short Python
lists of (possibly symbolic) scalars.  Part of the trusted base; validated differentially against the real
numpy on every run (gen_C03.pre_checks) and by replaying every counterexample with the real numpy.

Arithmetic is whatever the element type does: exact over the reals in CrossHair's real mode.
Only 1-D arrays.  Anything histogrammar does not call is deliberately missing (AttributeError -> harness error).
"""
import math

inf = float("inf")
nan = float("nan")
INT64_MIN = -(2**63)


class float64(float):
    pass


class int64(int):
    pass


class number:  # numpy.number: scalars of the model are plain python numbers, never instances of this
    pass


bool_ = bool


def _isnan(x):
    return isinstance(x, float) and math.isnan(x)


def _cast(x, dtype):
    if dtype is None:
        return x
    if dtype in (float64, float):
        if isinstance(x, bool):
            return 1.0 if x else 0.0
        return float(x)
    if dtype in (int64, int):
        if isinstance(x, float):
            if math.isnan(x) or math.isinf(x) or x >= 9223372036854775808.0 or x < -9223372036854775808.0:
                return INT64_MIN  # what the C cast yields on x86-64 for NaN, inf and out-of-range values
            return int(x)
        return int(x)
    if dtype is bool:
        return bool(x)
    raise NotImplementedError("dtype %r" % (dtype,))


class ndarray:
    def __init__(self, items, dtype=None):
        self._a = [_cast(x, dtype) for x in items]
        self.dtype = dtype

    # -- structure
    @property
    def shape(self):
        return (len(self._a),)

    def __len__(self):
        return len(self._a)

    def __iter__(self):
        return iter(self._a)

    def copy(self):
        return ndarray(list(self._a), None)

    def tolist(self):
        return list(self._a)

    def __repr__(self):
        return "npmodel.array(%r)" % (self._a,)

    # -- indexing
    def __getitem__(self, k):
        if isinstance(k, ndarray):  # boolean mask
            assert len(k._a) == len(self._a)
            return ndarray([x for x, m in zip(self._a, k._a) if m], None)
        if isinstance(k, slice):
            return ndarray(self._a[k], None)
        return self._a[k]

    def __setitem__(self, k, v):
        if isinstance(k, ndarray):
            assert len(k._a) == len(self._a)
            assert not isinstance(v, ndarray)
            self._a = [(v if m else x) for x, m in zip(self._a, k._a)]
        elif isinstance(k, slice):
            assert k == slice(None, None, None)
            if isinstance(v, ndarray):
                assert len(v._a) == len(self._a)
                self._a = list(v._a)
            else:
                self._a = [v for _ in self._a]
        else:
            self._a[k] = v

    # -- elementwise arithmetic / comparison
    def _bin(self, other, op):
        if isinstance(other, ndarray):
            assert len(other._a) == len(self._a)
            return ndarray([op(x, y) for x, y in zip(self._a, other._a)], None)
        return ndarray([op(x, other) for x in self._a], None)

    def __mul__(self, o):
        return self._bin(o, lambda x, y: _num(x) * _num(y))

    __rmul__ = __mul__

    def __add__(self, o):
        return self._bin(o, lambda x, y: _num(x) + _num(y))

    __radd__ = __add__

    def __sub__(self, o):
        return self._bin(o, lambda x, y: _num(x) - _num(y))

    def __truediv__(self, o):
        return self._bin(o, lambda x, y: _num(x) / _num(y))

    def __gt__(self, o):
        return self._bin(o, lambda x, y: x > y)

    def __ge__(self, o):
        return self._bin(o, lambda x, y: x >= y)

    def __lt__(self, o):
        return self._bin(o, lambda x, y: x < y)

    def __le__(self, o):
        return self._bin(o, lambda x, y: x <= y)

    def __eq__(self, o):  # noqa: PLW1641
        return self._bin(o, lambda x, y: x == y)

    def __ne__(self, o):
        return self._bin(o, lambda x, y: x != y)

    __hash__ = None

    # -- mask algebra / method forms of the module functions (a refactoring may use either spelling)
    def __invert__(self):
        return ndarray([not x for x in self._a], dtype=bool)

    def __and__(self, o):
        return self._bin(o, lambda x, y: bool(x) and bool(y))

    def __or__(self, o):
        return self._bin(o, lambda x, y: bool(x) or bool(y))

    def __neg__(self):
        return ndarray([-_num(x) for x in self._a], dtype=self.dtype)

    def __rmul__(self, o):
        return self.__mul__(o)

    def __radd__(self, o):
        return self.__add__(o)

    def any(self):
        return any(self)

    def all(self):
        return all(self)

    def astype(self, dtype):
        return ndarray([_cast(x, dtype) for x in self._a], dtype=dtype)

    def mean(self):
        return self.sum() / len(self._a)

    def fill(self, v):
        self._a = [v for _ in self._a]

    @property
    def size(self):
        return len(self._a)

    @property
    def ndim(self):
        return 1

    @property
    def T(self):
        return self

    def flatten(self):
        return self.copy()

    ravel = flatten

    def item(self, i=0):
        return self._a[i]

    # -- reductions
    def sum(self):
        s = 0.0
        for x in self._a:
            s = s + _num(x)
        return s

    def min(self):
        # numpy propagates NaN; histogrammar masks NaN out before calling
        best = self._a[0]
        for x in self._a[1:]:
            if _isnan(x) or _isnan(best):
                best = nan
            elif x < best:
                best = x
        return best

    def max(self):
        best = self._a[0]
        for x in self._a[1:]:
            if _isnan(x) or _isnan(best):
                best = nan
            elif x > best:
                best = x
        return best


def _num(x):
    if isinstance(x, bool):
        return 1.0 if x else 0.0
    return x


# ------------------------------------------------------------------ constructors
def array(x, dtype=None):
    if isinstance(x, ndarray):
        return ndarray(list(x._a), dtype)
    return ndarray(list(x), dtype)


def ones(shape, dtype=None):
    n = shape[0] if isinstance(shape, (list, tuple)) else shape
    return ndarray([1.0] * n, None)


def zeros(shape, dtype=None):
    n = shape[0] if isinstance(shape, (list, tuple)) else shape
    return ndarray([0.0] * n, None)


def empty(shape, dtype=None):
    n = shape[0] if isinstance(shape, (list, tuple)) else shape
    return ndarray([False if dtype is bool else 0.0] * n, None)


# ------------------------------------------------------------------ elementwise ufuncs (with out=)
def _out(res, out):
    if out is None:
        return ndarray(res, None)
    assert len(out._a) == len(res)
    out._a = res
    return out


def isnan(q):
    if not isinstance(q, ndarray):
        return _isnan(q)
    return ndarray([_isnan(x) for x in q._a], None)


def isfinite(q):
    return ndarray([not (isinstance(x, float) and (math.isnan(x) or math.isinf(x))) for x in q._a], None)


def isneginf(q):
    return ndarray([isinstance(x, float) and math.isinf(x) and x < 0 for x in q._a], None)


def isposinf(q):
    return ndarray([isinstance(x, float) and math.isinf(x) and x > 0 for x in q._a], None)


def bitwise_not(a, out=None):
    return _out([not x for x in a._a], out)


def bitwise_and(a, b, out=None):
    return _out([bool(x) and bool(y) for x, y in zip(a._a, b._a)], out)


def bitwise_or(a, b, out=None):
    return _out([bool(x) or bool(y) for x, y in zip(a._a, b._a)], out)


def _cmp(op):
    def f(a, b, out=None):
        if isinstance(b, ndarray):
            return _out([op(x, y) for x, y in zip(a._a, b._a)], out)
        return _out([op(x, b) for x in a._a], out)

    return f


greater_equal = _cmp(lambda x, y: x >= y)
less = _cmp(lambda x, y: x < y)
equal = _cmp(lambda x, y: x == y)
not_equal = _cmp(lambda x, y: x != y)
subtract = _cmp(lambda x, y: x - y)
multiply = _cmp(lambda x, y: x * y)
divide = _cmp(lambda x, y: x / y)


def floor(q, out=None):
    res = []
    for x in q._a:
        if isinstance(x, float) and (math.isnan(x) or math.isinf(x)):
            res.append(x)
        else:
            res.append(float(math.floor(x)))
    return _out(res, out)


# ------------------------------------------------------------------ reductions / set operations
def all(x):  # noqa: A001
    if isinstance(x, ndarray):
        for v in x._a:
            if not v:
                return False
        return True
    return bool(x)


def sum(x):  # noqa: A001
    return x.sum()


def average(q, weights=None):
    tot = 0.0
    acc = 0.0
    for x, w in zip(q._a, weights._a):
        tot = tot + w
        acc = acc + x * w
    if tot == 0.0:
        raise ZeroDivisionError("Weights sum to zero, can't be normalized")
    return acc / tot


def unique(x, return_counts=False, return_inverse=False):
    vals = list(x._a) if isinstance(x, ndarray) else list(x)
    uniq = []
    for v in vals:
        found = False
        for u in uniq:
            if u == v:
                found = True
                break
        if not found:
            uniq.append(v)
    uniq = sorted(uniq)
    out = [ndarray(uniq, None)]
    if return_inverse:
        inv = []
        for v in vals:
            for i, u in enumerate(uniq):
                if u == v:
                    inv.append(i)
                    break
        out.append(ndarray(inv, None))
    if return_counts:
        cnt = []
        for u in uniq:
            c = 0
            for v in vals:
                if u == v:
                    c += 1
            cnt.append(c)
        out.append(ndarray(cnt, None))
    return out[0] if len(out) == 1 else tuple(out)


def histogram(q, bins=10, range=None, weights=None):  # noqa: A002
    """numpy semantics: uniform bins over `range` or explicit edges; values outside are dropped;
    the last bin includes its right edge.  Membership is decided by exact comparisons (no division)."""
    vals = q._a
    ws = weights._a if weights is not None else [1.0] * len(vals)
    if isinstance(bins, int):
        lo, hi = range
        n = bins
        h = [0.0] * n
        for x, w in zip(vals, ws):
            if _isnan(x) or x < lo or x > hi:
                continue
            if x == hi:
                h[n - 1] = h[n - 1] + w
                continue
            for i in builtins_range(n):
                # lo + i*(hi-lo)/n <= x < lo + (i+1)*(hi-lo)/n
                if i * (hi - lo) <= n * (x - lo) and n * (x - lo) < (i + 1) * (hi - lo):
                    h[i] = h[i] + w
                    break
        edges = [lo + i * (hi - lo) / n for i in builtins_range(n + 1)]
        return ndarray(h, None), ndarray(edges, None)
    edges = list(bins)
    n = len(edges) - 1
    h = [0.0] * n
    for x, w in zip(vals, ws):
        if _isnan(x) or x < edges[0] or x > edges[n]:
            continue
        if x == edges[n]:
            h[n - 1] = h[n - 1] + w
            continue
        for i in builtins_range(n):
            if edges[i] <= x and x < edges[i + 1]:
                h[i] = h[i] + w
                break
    return ndarray(h, None), ndarray(edges, None)


def bincount(x, weights=None, minlength=0):
    """numpy semantics for non-negative integer indexes: out[j] = sum of the weights (or the count) of the rows with index j"""
    idx = x._a if isinstance(x, ndarray) else list(x)
    ws = (weights._a if isinstance(weights, ndarray) else list(weights)) if weights is not None else None
    n = minlength
    for v in idx:
        if v < 0:
            raise ValueError("'list' argument must have no negative elements")
        if v >= n:
            n = int(v) + 1
    out = [0.0 if ws is not None else 0] * n
    for r, v in enumerate(idx):
        for j in builtins_range(n):
            if v == j:
                out[j] = out[j] + (ws[r] if ws is not None else 1)
                break
    return ndarray(out, None)


# ------------------------------------------------------------------ scalar / small-array helpers used by the view accessors
class _FInfo:
    eps = 2.220446049250313e-16


def finfo(t):
    return _FInfo()


def isclose(a, b, rtol=1e-05, atol=1e-08):
    if isinstance(a, ndarray) or isinstance(b, ndarray):
        raise NotImplementedError("isclose on arrays")
    if _isnan(a) or _isnan(b):
        return False
    if isinstance(a, float) and math.isinf(a) or isinstance(b, float) and math.isinf(b):
        return a == b
    d = a - b
    if d < 0:
        d = -d
    ab = b if b >= 0 else -b
    return d <= atol + rtol * ab


def round(x, decimals=0):  # noqa: A001
    """round half to even, to an integral float"""
    assert decimals == 0 and not isinstance(x, ndarray)
    f = math.floor(x)
    r = x - f
    if r > 0.5:
        return float(f + 1)
    if r < 0.5:
        return float(f)
    return float(f) if f % 2 == 0 else float(f + 1)


def linspace(start, stop, num=50):
    if num == 1:
        return ndarray([start], None)
    out = []
    for i in builtins_range(num):
        if i == num - 1:
            out.append(stop)
        else:
            out.append(start + i * (stop - start) / (num - 1))
    return ndarray(out, None)


def arange(start, stop=None, step=1):
    if stop is None:
        start, stop = 0, start
    if isinstance(start, int) and isinstance(stop, int) and isinstance(step, int):
        return ndarray(list(builtins_range(start, stop, step)), None)
    n = int(math.ceil((stop - start) / step))
    return ndarray([start + i * step for i in builtins_range(max(n, 0))], None)


def concatenate(parts):
    out = []
    for p in parts:
        out += list(p._a) if isinstance(p, ndarray) else list(p)
    return ndarray(out, None)


def diff(a):
    xs = list(a._a) if isinstance(a, ndarray) else list(a)
    return ndarray([y - x for x, y in zip(xs, xs[1:])], None)


# ------------------------------------------------------------------ further common entry points (not used by the pinned tree;
# present so that a changed tree which reaches for them is still analysed instead of ending in a harness error)
def asarray(x, dtype=None):
    return x if isinstance(x, ndarray) and dtype is None else array(x, dtype)


def where(cond, a, b):
    n = len(cond._a)
    av = a._a if isinstance(a, ndarray) else [a] * n
    bv = b._a if isinstance(b, ndarray) else [b] * n
    return ndarray([(x if c else y) for c, x, y in zip(cond._a, av, bv)], None)


def dot(a, b):
    s = 0.0
    for x, y in zip(a._a, b._a):
        s = s + _num(x) * _num(y)
    return s


def any(x):  # noqa: A001
    if isinstance(x, ndarray):
        for v in x._a:
            if v:
                return True
        return False
    return bool(x)


def isinf(q):
    if not isinstance(q, ndarray):
        return isinstance(q, float) and math.isinf(q)
    return ndarray([isinstance(x, float) and math.isinf(x) for x in q._a], None)


def logical_not(a, out=None):
    return bitwise_not(a, out)


def logical_and(a, b, out=None):
    return bitwise_and(a, b, out)


def logical_or(a, b, out=None):
    return bitwise_or(a, b, out)


def absolute(q, out=None):
    return _out([(-x if x < 0 else x) for x in q._a], out)


abs = absolute  # noqa: A001


def _elementwise2(op):
    def f(a, b, out=None):
        n = len(a._a) if isinstance(a, ndarray) else len(b._a)
        av = a._a if isinstance(a, ndarray) else [a] * n
        bv = b._a if isinstance(b, ndarray) else [b] * n
        return _out([op(x, y) for x, y in zip(av, bv)], out)

    return f


minimum = _elementwise2(lambda x, y: nan if (_isnan(x) or _isnan(y)) else (y if y < x else x))
maximum = _elementwise2(lambda x, y: nan if (_isnan(x) or _isnan(y)) else (y if y > x else x))
add = _elementwise2(lambda x, y: _num(x) + _num(y))
greater = _cmp(lambda x, y: x > y)
less_equal = _cmp(lambda x, y: x <= y)


def clip(q, lo, hi, out=None):
    return _out([(lo if x < lo else (hi if x > hi else x)) for x in q._a], out)


def zeros_like(a, dtype=None):
    return ndarray([False if dtype is bool else 0.0] * len(a._a), None)


def ones_like(a, dtype=None):
    return ndarray([1.0] * len(a._a), None)


def count_nonzero(a):
    c = 0
    for v in a._a:
        if v:
            c += 1
    return c


def nan_to_num(q, nan=0.0):  # noqa: A002
    return ndarray([(nan if _isnan(x) else x) for x in q._a], None)


def array_equal(a, b):
    av = a._a if isinstance(a, ndarray) else list(a)
    bv = b._a if isinstance(b, ndarray) else list(b)
    if len(av) != len(bv):
        return False
    for x, y in zip(av, bv):
        if not (x == y):
            return False
    return True


import builtins as _b  # noqa: E402

builtins_range = _b.range


# ------------------------------------------------------------------ installation
_MODULES = [
    "histogrammar.defs",
    "histogrammar.primitives.bin",
    "histogrammar.primitives.sparselybin",
    "histogrammar.primitives.centrallybin",
    "histogrammar.primitives.irregularlybin",
    "histogrammar.primitives.categorize",
    "histogrammar.primitives.stack",
    "histogrammar.primitives.minmax",
    "histogrammar.primitives.collection",
    "histogrammar.primitives.bag",
    "histogrammar.primitives.count",
    "histogrammar.primitives.sum",
    "histogrammar.primitives.average",
    "histogrammar.primitives.deviate",
    "histogrammar.primitives.fraction",
    "histogrammar.primitives.select",
]


class installed:
    """Context manager: the histogrammar modules (and function-level ``import numpy``) see this model."""

    def __enter__(self):
        import sys

        me = sys.modules[__name__]
        self.saved = []
        for name in _MODULES:
            mod = sys.modules.get(name)
            if mod is None:
                continue
            for attr in ("np", "numpy"):
                if attr in mod.__dict__ and getattr(mod.__dict__[attr], "__name__", "") == "numpy":
                    self.saved.append((mod, attr, mod.__dict__[attr]))
                    mod.__dict__[attr] = me
        self.real = sys.modules.get("numpy")
        sys.modules["numpy"] = me
        return self

    def __exit__(self, *a):
        import sys

        for mod, attr, val in self.saved:
            mod.__dict__[attr] = val
        sys.modules["numpy"] = self.real
        return False
