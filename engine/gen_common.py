"""Shared pieces for the harness generators."""
from catalogue import SETUP  # noqa: F401

CATS = ('"a"', '"b"', "None")
NUMS = ("1.0", "2.5", "NAN")


def data_params(tree, n, weights=False, special=False, mode="real", prefix="", cats=2, nums=2, wsign="pos"):
    """Symbolic stream of n records for `tree`.

    returns (params, pre_terms, code) where code defines lists ``{prefix}data`` and ``{prefix}ws``.
    special: every float datum may also be NaN/+inf/-inf through a symbolic selector (real mode).
    """
    params, pre, recs, ws = [], [], [], []
    for i in range(1, n + 1):
        x = y = "0.0"
        c = "None"
        nn = "0.0"
        if tree.uses_x:
            params.append((f"{prefix}x{i}", "float"))
            x = f"{prefix}x{i}"
            if "x" in tree.sparse:
                pre.append(f"-2.0 <= {x} < 2.0")
            elif mode == "real":
                pre.append(f"finite({x})")
            if mode == "real":
                if special:
                    params.append((f"{prefix}sx{i}", "int"))
                    pre.append(f"0 <= {prefix}sx{i} <= 3")
                    x = f"sel({prefix}sx{i}, {x}, NAN, INF, -INF)"
        if tree.uses_y:
            params.append((f"{prefix}y{i}", "float"))
            y = f"{prefix}y{i}"
            if "y" in tree.sparse:
                pre.append(f"-2.0 <= {y} < 2.0")
            elif mode == "real":
                pre.append(f"finite({y})")
            if mode == "real":
                if special:
                    params.append((f"{prefix}sy{i}", "int"))
                    pre.append(f"0 <= {prefix}sy{i} <= 3")
                    y = f"sel({prefix}sy{i}, {y}, NAN, INF, -INF)"
        if tree.uses_c:
            params.append((f"{prefix}c{i}", "int"))
            pre.append(f"0 <= {prefix}c{i} < {cats}")
            c = f"sel({prefix}c{i}, {', '.join(CATS[:cats])})"
        if tree.uses_n:
            params.append((f"{prefix}n{i}", "int"))
            pre.append(f"0 <= {prefix}n{i} < {nums}")
            nn = f"sel({prefix}n{i}, {', '.join(NUMS[:nums])})"
        recs.append(f"({x}, {y}, {c}, {nn})")
        if weights:
            params.append((f"{prefix}w{i}", "float"))
            if wsign == "pos":
                pre.append(f"finite({prefix}w{i}) and {prefix}w{i} > 0.0" if mode == "real" else f"{prefix}w{i} > 0.0")
            elif mode == "real":
                pre.append(f"finite({prefix}w{i})")
            ws.append(f"{prefix}w{i}")
        else:
            ws.append("1.0")
    code = f"{prefix}data = [{', '.join(recs)}]\n{prefix}ws = [{', '.join(ws)}]\n"
    return params, pre, code


def bounds_text(tree, n, **kw):
    parts = [f"tree={tree.name}", f"stream length n={n}"]
    if tree.sparse:
        parts.append("sparse-indexed fields %s restricted to [-2, 2) (4 bin indexes)" % sorted(tree.sparse))
    parts += [f"{k}={v}" for k, v in kw.items()]
    return "; ".join(parts)
