"""Shared pieces for the harness generators."""
from catalogue import SETUP  # noqa: F401

CATS = ('"a"', '"b"', "None")
NUMS = ("1.0", "2.5", "NAN")


def data_params(tree, n, weights=False, special=False, mode="real", prefix="", cats=2, nums=2, wsign="pos", fix_leaf_y=False):
    """Symbolic stream of n records for `tree`.

    returns (params, pre_terms, code) where code defines lists ``{prefix}data`` and ``{prefix}ws``.
    special: (real mode) the caller passes Harness(special=SPECIAL_XY) so that x/y arguments also range over
    nan/+-inf; here it only relaxes the sparse-range precondition accordingly.
    In real mode every float argument is a finite real by construction (engine/chmodel.py).
    """
    params, pre, recs, ws = [], [], [], []
    for i in range(1, n + 1):
        x = y = "0.0"
        c = "None"
        nn = "0.0"
        if tree.uses_x:
            params.append((f"{prefix}x{i}", "float"))
            x = f"{prefix}x{i}"
            if "x" in tree.sparse:
                pre.append(f"-2.0 <= {x} < 2.0" if not special else f"({x} != {x} or {x} in (INF, -INF) or -2.0 <= {x} < 2.0)")
        if tree.uses_y and fix_leaf_y and tree.y_leaf_only:
            y = {"": "0.25", "a": "0.25", "b": "-0.5", "e": "1.75"}.get(prefix, "0.75") + f" * {i}"
        elif tree.uses_y:
            params.append((f"{prefix}y{i}", "float"))
            y = f"{prefix}y{i}"
            if "y" in tree.sparse:
                pre.append(f"-2.0 <= {y} < 2.0" if not special else f"({y} != {y} or {y} in (INF, -INF) or -2.0 <= {y} < 2.0)")
        if tree.uses_c:
            params.append((f"{prefix}c{i}", "int"))
            pre.append(f"0 <= {prefix}c{i} < {cats}")
            c = f"sel({prefix}c{i}, {', '.join(CATS[:cats])})"
        if tree.uses_n:
            params.append((f"{prefix}n{i}", "int"))
            pre.append(f"0 <= {prefix}n{i} < {nums}")
            nn = f"sel({prefix}n{i}, {', '.join(NUMS[:nums])})"
        recs.append(f"({x}, {y}, {c}, {nn})")
        if weights:
            params.append((f"{prefix}w{i}", "float"))
            if wsign == "pos":
                pre.append(f"{prefix}w{i} > 0.0")
            ws.append(f"{prefix}w{i}")
        else:
            ws.append("1.0")
    code = f"{prefix}data = [{', '.join(recs)}]\n{prefix}ws = [{', '.join(ws)}]\n"
    return params, pre, code


def bounds_text(tree, n, **kw):
    parts = [f"tree={tree.name}", f"stream length n={n}"]
    if tree.sparse:
        parts.append("sparse-indexed fields %s restricted to [-2, 2) (4 bin indexes)" % sorted(tree.sparse))
    parts += [f"{k}={v}" for k, v in kw.items()]
    return "; ".join(parts)


SPECIAL_XY = r"^[abe]?[xy]\d+(_\d+)?$"
