"""C12 a fill that raises leaves the aggregator as if the record had been skipped."""
import itertools

from gen_common import SETUP
from run import Harness

ASSUMPTIONS = [
    "single-path trees only (Bin, SparselyBin, CentrallyBin, IrregularlyBin, Categorize, Select nested over a leaf), as the property states",
    "a record's failure is a symbolic selector: 0 = none, 2j-1 = the quantity of level j raises, 2j = it returns a wrong-typed value",
]

Q_SETUP = SETUP + '''
class Abort(BaseException):
    """round 5: a failure that is not an Exception subclass (like KeyboardInterrupt); CrossHair never raises this class"""
FAILEXC = ValueError
def mkq(level, base, wrong):
    def q(d):
        m = d[4]
        if m == 2 * level - 1:
            raise FAILEXC("injected failure at level %d" % level)
        if m == 2 * level:
            return wrong
        return base(d)
    return q
'''

# container -> (expr template with {q} quantity var and {c} child, base quantity by level parity, wrong value)
CONT = {
    "Bin": ("H.Bin(2, 0.0, 2.0, {q}, {c})", "num"),
    "SparselyBin": ("H.SparselyBin(1.0, {q}, {c})", "num"),
    "CentrallyBin": ("H.CentrallyBin([0.0, 2.0], {q}, {c})", "num"),
    "IrregularlyBin": ("H.IrregularlyBin([0.0, 1.0], {q}, {c})", "num"),
    "Categorize": ("H.Categorize({q}, {c})", "cat"),
    "Select": ("H.Select({q}, {c})", "bool"),
}
LEAF = {
    "Sum": "H.Sum({q})",
    "Average": "H.Average({q})",
    "Deviate": "H.Deviate({q})",
    "Minimize": "H.Minimize({q})",
    "Maximize": "H.Maximize({q})",
    "Bag": 'H.Bag({q}, "N")',
    "Count": None,
}
FIELDS = ["qx", "qy", "qz"]  # d[0], d[1], d[2] numeric routing per level


def build(chain):
    """chain = [container..., leaf] -> (expr, setup lines, depth)"""
    lines = []
    expr = None
    depth = len(chain)
    for level in range(depth, 0, -1):
        name = chain[level - 1]
        qn = f"Q{level}"
        if name in LEAF:
            if LEAF[name] is None:
                expr = "H.Count()"
                continue
            if name == "Bag":  # finite key alphabet (a symbolic float used as a dict key is realised)
                lines.append(f'{qn} = mkq({level}, lambda d: 1.0 if d[{level - 1}] > 0.5 else 2.5, "oops")')
            else:
                lines.append(f'{qn} = mkq({level}, lambda d: d[{level - 1}], "oops")')
            expr = LEAF[name].format(q=qn)
        else:
            tmpl, kind = CONT[name]
            if kind == "num":
                lines.append(f'{qn} = mkq({level}, lambda d: d[{level - 1}], "oops")')
            elif kind == "cat":
                lines.append(f'{qn} = mkq({level}, lambda d: ("c" if d[{level - 1}] > 0.5 else "d") if d[{level - 1}] > -1.0 else (None if d[{level - 1}] > -1.5 else NAN), 3.5)')
            else:
                lines.append(f'{qn} = mkq({level}, lambda d: d[{level - 1}] > -1.0, "oops")')
            expr = tmpl.format(q=qn, c=expr)
    return expr, "\n".join(lines), depth


def failing(chain, n, timeout=60, base=False):
    expr, qlines, depth = build(chain)
    params, pre, recs = [], [], []
    for i in range(1, n + 1):
        vals = []
        for lv in range(3):
            if lv < depth:
                params.append((f"v{i}_{lv}", "float"))
                pre.append(f"-2.0 <= v{i}_{lv} < 2.0")
                vals.append(f"v{i}_{lv}")
            else:
                vals.append("0.0")
        params.append((f"m{i}", "int"))
        pre.append(f"0 <= m{i} <= {2 * depth}")
        recs.append(f"({vals[0]}, {vals[1]}, {vals[2]}, 0.0, m{i})")
    body = f"""
data = [{', '.join(recs)}]
h, twin = fresh(MK, 2)
survivors = []
for d in data:
    before = J(h)
    try:
        h.fill(d)
    except (Exception, Abort):
        if not jsame(J(h), before): return "failing-fill-changed-state"
        continue
    if d[4] == 0: survivors.append(d)
    else: survivors.append(d)  # the failing quantity was never reached (e.g. cut not passed): record counts
for d in survivors: twin.fill(d)
if not jeq(J(h), J(twin)): return "final-state-differs-from-surviving-records"
"""
    name = ">".join(chain)
    return Harness(
        f"C12/{'fail-base' if base else 'fail'}/{name}/n{n}", params, " and ".join(pre), body, timeout=timeout,
        setup=Q_SETUP + ("FAILEXC = Abort\n" if base else "") + qlines + f"\nMK = lambda: {expr}\n", tree=expr,
        bounds=f"tree={name}; stream n={n}; routing values symbolic in [-2,2); failure selector per record in 0..{2 * depth}"
        + ("; the raising quantity raises a BaseException-only class" if base else ""),
    )


def failing_special(leaf, timeout=40):
    """two further failure modes: the quantity returns an int beyond the float range (OverflowError inside fill), and
    a cached() quantity that raises (the cache must not remember the failing call)"""
    body = f"""
state = [0]
def qf(d):
    if d[4] == 1: raise ValueError("injected")
    if d[4] == 2: return 10 ** 400
    return d[0]
with NT():
    h = {LEAF[leaf].format(q="U.cached(qf)" )} if use_cache else {LEAF[leaf].format(q="qf")}
    twin = {LEAF[leaf].format(q="(lambda d: d[0])")}
    h._checkForCrossReferences(); twin._checkForCrossReferences()
recs = [(x1, 0.0, 0.0, 0.0, 0), (x2, 0.0, 0.0, 0.0, m), (x2, 0.0, 0.0, 0.0, 0)]
for r in recs:
    before = J(h)
    try:
        h.fill(r)
    except Exception:
        if not jsame(J(h), before): return "failing-fill-changed-state"
        continue
    twin.fill(r)
jh, jt = J(h)["data"], J(twin)["data"]
jh = dict((k, v) for k, v in jh.items() if k != "name"); jt = dict((k, v) for k, v in jt.items() if k != "name")
if not jeq(jh, jt): return "final-state-differs-from-surviving-records"
"""
    return Harness(f"C12/fail-special/{{}}".format(leaf), [("x1", "float"), ("x2", "float"), ("m", "int"), ("use_cache", "bool")],
                   "1 <= m <= 2", body, timeout=timeout, setup=Q_SETUP, tree=LEAF[leaf].format(q="qf"),
                   bounds="3 records: ok, failing (raise | huge int, by selector), then the same datum without failure; quantity plain or cached()")


def failing_weighted(chain, timeout=60):
    """IEEE weights: a failing fill must leave the state bit-identical (an add-then-subtract rollback of a float counter
    does not); routing values are concrete, the weights of the successful and of the failing fill are symbolic Float64."""
    expr, qlines, depth = build(chain)
    body = f"""
h = fresh(MK, 1)[0]
ok = (0.5, 0.25, 0.75, 0.0, 0)
h.fill(ok, w0)
before = J(h)
bad = (0.5, 0.25, 0.75, 0.0, m)
try:
    h.fill(bad, w1)
except Exception:
    if not jsame(J(h), before): return "failing-weighted-fill-changed-state"
    return "REACHED" if T else ""
if m != 0: return ""
"""
    name = ">".join(chain)
    return Harness(
        f"C12/fail-ieee/{name}", [("w0", "float"), ("w1", "float"), ("m", "int")],
        f"w0 > 0.0 and w0 < 1e300 and w1 > 0.0 and w1 < 1e300 and 1 <= m <= {2 * depth}", body, mode="ieee", timeout=timeout,
        setup=Q_SETUP + qlines + f"\nMK = lambda: {expr}\n", tree=expr,
        bounds=f"tree={name}; one successful fill (weight w0) then one failing fill (weight w1, failure selector 1..{2 * depth}); w0, w1 any finite positive Float64",
    )


def harnesses(tier):
    import gen_C12_extra
    out = gen_C12_extra.harnesses(tier) + []
    leaves = [l for l in LEAF if l != "Count"]
    for l in ("Sum", "Average", "Deviate", "Minimize", "Maximize"):
        out.append(failing_special(l))
    for c in CONT:
        out.append(failing_weighted([c, "Sum"]))
        out.append(failing_weighted([c, "Bin", "Sum"] if c != "Bin" else [c, "Select", "Sum"]))
    for l in leaves:
        out.append(failing([l], 2, timeout=40))
    for c in CONT:
        for l in leaves if tier == "thorough" else ["Sum", "Deviate", "Bag", "Minimize"]:
            out.append(failing([c, l], 2, timeout=60 if tier == "quick" else 200))
    pairs = list(itertools.product(CONT, CONT))
    if tier == "quick":
        pairs = [p for i, p in enumerate(pairs) if i % 3 == 0]
    for c1, c2 in pairs:
        out.append(failing([c1, c2, "Sum"], 1 if tier == "quick" else 2, timeout=60 if tier == "quick" else 300))
    for c in CONT:  # round 5: failures that `except Exception` does not see
        out.append(failing([c, "Sum"], 2, timeout=60 if tier == "quick" else 200, base=True))
        out.append(failing([c, "Bin", "Sum"] if c != "Bin" else [c, "Categorize", "Sum"], 1 if tier == "quick" else 2,
                           timeout=60 if tier == "quick" else 300, base=True))
    if tier == "thorough":
        for c in CONT:
            out.append(failing([c, "Sum"], 3, timeout=300))
            out.append(failing([c, "Count"], 2, timeout=120))
    return out
