"""CrossHair engine configuration for the histogrammar checks (E1 of DESIGN.md).

install(mode) fixes how Python ``float`` is modelled for one analysis process:

  real : RealBasedSymbolicFloat (z3 Real).  Exact arithmetic, no symbolic NaN/inf.
         CrossHair normally caps every result obtained with this model at "unknown"
         (because reals are not floats); we remove the cap, which makes the claim
         "holds for all *real* values" -- stated as such in evidence.
  ieee : PreciseIeeeSymbolicFloat (z3 Float64).  Bit-precise, NaN/inf/-0.0 symbolic.

Engine patches installed here (each one is listed in evidence as a stub):
  * math.floor keeps a symbolic float symbolic (x.__floor__()) instead of realising it
  * format()/f-strings of a symbolic non-string value yield "<symbolic>"
"""
import math

from crosshair import NoTracing, register_patch
from crosshair import statespace as S
from crosshair.core import _PATCH_REGISTRATIONS, CrossHairValue
from crosshair.libimpl import builtinslib as B

_orig_floor = math.floor


def _floor(x):
    with NoTracing():
        sym = isinstance(x, B.SymbolicFloat)
    if sym:
        return x.__floor__()
    return _orig_floor(x)


_orig_format = B._format


def _format_stub(obj, format_spec=""):
    with NoTracing():
        sym = isinstance(obj, CrossHairValue) and not isinstance(obj, B.AnySymbolicStr)
    if sym:
        return "<symbolic>"
    return _orig_format(obj, format_spec)


STUBS = [
    "math.floor(symbolic float) -> x.__floor__() (stays symbolic)",
    "format()/f-string of a symbolic non-str value -> '<symbolic>' (error messages only)",
]


def install(mode):
    if mode == "real":
        B._PYTYPE_TO_WRAPPER_TYPE[float] = ((B.RealBasedSymbolicFloat, 1.0),)
        S.StateSpace.cap_result_at_unknown = lambda self: None
    elif mode == "ieee":
        B._PYTYPE_TO_WRAPPER_TYPE[float] = ((B.PreciseIeeeSymbolicFloat, 1.0),)
    else:
        raise ValueError(mode)
    _PATCH_REGISTRATIONS.pop(math.floor, None)
    register_patch(math.floor, _floor)
    B._format = _format_stub
    _PATCH_REGISTRATIONS.pop(format, None)
    register_patch(format, _format_stub)
