"""CrossHair engine configuration for the histogrammar checks (E1 of DESIGN.md).

install(mode) fixes how Python ``float`` is modelled for one analysis process:

  real : RealBasedSymbolicFloat (z3 Real).  Exact arithmetic, no symbolic NaN/inf.
         CrossHair normally caps every result obtained with this model at "unknown"
         (because reals are not floats); we remove the cap, which makes the claim
         "holds for all *real* values" -- stated as such in evidence.
  ieee : PreciseIeeeSymbolicFloat (z3 Float64).  Bit-precise, NaN/inf/-0.0 symbolic.

Engine patches installed here (each one is listed in evidence as a stub):
  * math.floor keeps a symbolic float symbolic (x.__floor__()) instead of realising it
  * format()/f-strings of a symbolic non-string value yield "<symbolic>"
"""
import math

from crosshair import NoTracing, register_patch
from crosshair import statespace as S
from crosshair.core import _PATCH_REGISTRATIONS, CrossHairValue
from crosshair.libimpl import builtinslib as B

_orig_floor = math.floor


def _floor(x):
    with NoTracing():
        sym = isinstance(x, B.SymbolicFloat)
    if sym:
        return x.__floor__()
    return _orig_floor(x)


_orig_format = B._format


def _format_stub(obj, format_spec=""):
    with NoTracing():
        sym = isinstance(obj, CrossHairValue) and not isinstance(obj, B.AnySymbolicStr)
    if sym:
        return "<symbolic>"
    return _orig_format(obj, format_spec)


STUBS = [
    "math.floor(symbolic float) -> x.__floor__() (stays symbolic)",
    "format()/f-string of a symbolic non-str value -> '<symbolic>' (error messages only)",
    "real mode: a float argument is a finite real symbol; arguments named in the harness' `special` pattern also "
    "take the concrete values nan/-inf/+inf (CrossHair's 4-way fork, restricted to those arguments); no premature realisation",
]


def _make_real_float(special_re):
    """Creator for symbolic float arguments in real mode.

    CrossHair's own creator forks every float argument 4 ways (finite real | nan | -inf | +inf) and may
    "prematurely realize" it; here an argument is a finite real symbol, and only arguments whose name matches
    `special_re` additionally range over the three concrete non-finite values."""
    import re

    from crosshair.core import _SIMPLE_PROXIES
    from crosshair.statespace import context_statespace

    rx = re.compile(special_re) if special_re else None

    def make(creator, *type_args):
        varname, pytype = creator.varname, creator.pytype
        if rx is not None and rx.search(varname):
            space = context_statespace()
            if space.smt_fork(desc=f"{varname}_isfinite", probability_true=0.7):
                return B.RealBasedSymbolicFloat(varname, pytype)
            if space.smt_fork(desc=f"{varname}_isnan", probability_true=0.4):
                return float("nan")
            if space.smt_fork(desc=f"{varname}_neginf", probability_true=0.5):
                return float("-inf")
            return float("inf")
        return B.RealBasedSymbolicFloat(varname, pytype)

    _SIMPLE_PROXIES[float] = make


def install(mode, special_re=None):
    if mode == "real":
        B._PYTYPE_TO_WRAPPER_TYPE[float] = ((B.RealBasedSymbolicFloat, 1.0),)
        S.StateSpace.cap_result_at_unknown = lambda self: None
        _make_real_float(special_re)
    elif mode == "ieee":
        B._PYTYPE_TO_WRAPPER_TYPE[float] = ((B.PreciseIeeeSymbolicFloat, 1.0),)
    else:
        raise ValueError(mode)
    _PATCH_REGISTRATIONS.pop(math.floor, None)
    register_patch(math.floor, _floor)
    B._format = _format_stub
    _PATCH_REGISTRATIONS.pop(format, None)
    register_patch(format, _format_stub)
