"""Regenerate /verif/MANIFEST.json from the table below (run by hand after editing)."""
import json
import os

VERIF = os.path.dirname(os.path.dirname(os.path.abspath(__file__)))

TECH = "bounded symbolic execution of the real Python code (CrossHair 0.0.110 + z3) per concrete tree instantiation"
NOTE = (
    "Trusted base: CrossHair's model of CPython and z3; the float model named per harness in evidence "
    "(real = mathematical reals, ieee = Float64); engine stubs listed in evidence assumptions. Bounds (stream length, "
    "tree instantiations, value ranges) are stated per harness in evidence; nothing is claimed outside them. "
    "Counterexamples are replayed on the unpatched library in plain CPython before a VIOLATION is printed."
)

CHECKS = {
    # id: (design_ref, text, technique-suffix)
    "C01": ("DESIGN.md 2/C01", "Partition invariance, identity, commutativity and associativity of + decided for all symbolic data "
            "(symbolic weights, NaN/inf where stated) of streams n<=2..3 on every catalogue tree.", ""),
    "C02": ("DESIGN.md 2/C02", "After n<=2..3 symbolic fills the public state of every node equals an independent reference semantics "
            "(engine/refsem.py) evaluated on the same symbolic values; order independence; non-positive/NaN weights are no-ops; IEEE routing "
            "of Bin (flows iff comparisons, monotone index, every index attained, index == documented formula) and of CentrallyBin (nearest-centre "
            "rule with the documented cut) by SMT queries for every Float64.", " + AST->SMT-LIB kernel encoder (cvc5, z3)"),
    "C03": ("DESIGN.md 2/C03", "fill.numpy (through a validated model of the numpy calls histogrammar makes) equals per-row fill for "
            "symbolic batches n<=2..3, omitted / scalar / array weights (zeros included), NaN/inf rows, split batches, merges between batches; inputs "
            "unmodified. Supplemented (sampled, labelled so in evidence) by concrete real-numpy batches: caller arrays before/after, edge values +-ulp.",
            " + numpy stand-in (engine/npmodel.py)"),
    "C04": ("DESIGN.md 2/C04", "toJson strictness, fromJson(toJson) fixpoint and interchangeability of the reload under +, *, zero, copy, "
            "for every primitive in every child/flow slot (empty states enumerated, filled/merged states with symbolic data), mixed quantity names; "
            "real-numpy column dtypes sampled.", ""),
    "C05": ("DESIGN.md 2/C05", "(a) for every Float64 x and each bin configuration: exactly one target, index in range, no exception -- "
            "SMT queries (QF_FP) generated from the kernels' source, cvc5 and z3 must agree; (b) conservation invariants after every step "
            "of operation histories with symbolic data/weights/factors.", " + AST->SMT-LIB kernel encoder (cvc5, z3)"),
    "C06": ("DESIGN.md 2/C06", "Operands unchanged by pure operations; results of +, *, zero, copy share no state with operands under "
            "later symbolic fills and +=; separately constructed instances (defaults, templates) are independent.", ""),
    "C07": ("DESIGN.md 2/C07", "a += b yields exactly (old a)+b, keeps identity, leaves b unchanged and shares no state afterwards, "
            "for symbolic streams on every catalogue tree.", ""),
    "C08": ("DESIGN.md 2/C08", "h*f == f*h == refill with weights*f for symbolic f>0 (exact over the reals); multiplicativity, *1, *2, "
            "distributivity, JSON commutation, f<=0/NaN gives the empty aggregator, scaled result stays fillable/mergeable/hashable; IEEE entries "
            "== f*entries; numpy scalar factors sampled.", ""),
    "C09": ("DESIGN.md 2/C09", "== holds exactly when the single differing slot (numeric value incl. NaN/inf, key, length, type) is the same "
            "on both sides; symmetry, != negation, reflexivity, copies and JSON reloads equal; tolerances only widen.", ""),
    "C10": ("DESIGN.md 2/C10", "+ and += raise for every ordered pair of different primitives and for any differing structural parameter "
            "(symbolic on both sides) or nested child; rejected merges leave operands unchanged.", ""),
    "C11": ("DESIGN.md 2/C11", "pickle round trip keeps content and equality and the clone stays live: symbolic continuation (2 fills, "
            "merge) on clone and original agree, for 7 quantity kinds (incl. module globals whose names clash with histogrammar.util's) x 15 shapes; pre-pickle states are solver-chosen concretes (stated).", ""),
    "C12": ("DESIGN.md 2/C12", "For single-path trees up to depth 3, symbolic failure selectors (which record fails, at which level, by "
            "exception or wrong type): state unchanged by the failing call and final state equals that of the surviving records.", ""),
    "C13": ("DESIGN.md 2/C13", "num_bins / bin_edges / bin_centers / bin_entries mutually consistent for symbolic sub-ranges, contiguous "
            "with the full partition and covering the request; bin_entries(xvalues) and reported edges agree with where fill put a "
            "symbolic probe; 2-D grid totals; Categorize labels/entries/mpv.", " + numpy stand-in (engine/npmodel.py)"),
    "C15": ("DESIGN.md 2/C15", "Every position of every valid unit document replaced by a typed symbolic hole, each key deleted, keys "
            "added: fromJson raises or returns an aggregator that re-serialises to the mutated document; documents produced by toJson from empty, "
            "scaled, NaN-filled, build()/ed()/toImmutable() states are accepted and stable.", ""),
    "C16": ("DESIGN.md 2/C16", "One object installed at two symbolic positions of 12 skeletons is rejected with ContainerException before "
            "any state change, on first and later fills; trees sharing only never-filled templates are accepted.", ""),
    "C17": ("DESIGN.md 2/C17", "All application orders of named/cached/serializable give equal wrappers; cached functions return f(args) "
            "for 3-6 calls with symbolic arguments; 23 string expressions (3 using fields from a nested scope) equal their Python functions on symbolic records.", ""),
}

NA = {
    "C14": "every step that carries the property runs inside pandas/numpy C code on DataFrame objects, which realises "
           "symbolic values at the boundary; no DataFrame model is within reach of the solver-based engines here (DESIGN.md 2/C14)",
}
PENDING = "check not built yet in this session (planned, see DESIGN.md)"


def main():
    props = [json.loads(l)["id"] for l in open(os.path.join(VERIF, "properties.jsonl"))]
    checks = []
    for pid in props:
        if pid in CHECKS:
            ref, text, tech = CHECKS[pid]
            checks.append(
                {
                    "property_id": pid,
                    "quick_cmd": f"./check {pid} --tier quick",
                    "thorough_cmd": f"./check {pid} --tier thorough",
                    "evidence_file": f"evidence/{pid}.json",
                    "replay_cmd_template": f"./check {pid} --replay {{path}}",
                    "engine": "crosshair+z3" + tech,
                    "level_claimed": {"category": "model_checking", "text": text, "design_ref": ref},
                    "level_note": NOTE,
                    "technique": TECH + tech,
                }
            )
    na = []
    for pid in props:
        if pid not in CHECKS:
            na.append({"property_id": pid, "reason": NA.get(pid, PENDING)})
    m = {
        "version": 1,
        "setup_cmd": "./bin/ensure_env.sh",
        "hooks": {
            "guard": "HISTOGRAMMAR_VERIF",
            "enable": "no source hooks are needed: all stubs are installed inside the harness process (engine/chmodel.py, engine/vp.py)",
            "baseline_off_cmd": "cd /repo && /venv/bin/python -m pytest -ra -q -p no:cacheprovider --timeout=900 --continue-on-collection-errors",
            "source_commits": [],
            "add_only": True,
        },
        "engines": [
            {
                "name": "crosshair+z3",
                "path": "engine/run.py",
                "serves_properties": sorted(CHECKS),
                "kind_free_text": "symbolic execution of the real histogrammar code with z3 (CrossHair), forced float model, parallel per-harness",
            },
            {
                "name": "kernel-encoder",
                "path": "engine/kenc.py",
                "serves_properties": ["C02", "C05", "C09"],
                "kind_free_text": "Python AST of the routing kernels (parsed from /repo on every run) -> SMT-LIB2 QF_FP; cvc5 and z3 on the same file; translator validated on concrete inputs",
            },
            {
                "name": "npmodel",
                "path": "engine/npmodel.py",
                "serves_properties": ["C03", "C13"],
                "kind_free_text": "symbolic stand-in for the numpy entry points histogrammar calls; differentially validated against numpy on every run",
            }
        ],
        "checks": checks,
        "not_applicable": na,
        "notes": "exit 2 from a check means the machinery failed (environment, engine crash, no harness decided), never a verdict",
    }
    with open(os.path.join(VERIF, "MANIFEST.json"), "w") as f:
        json.dump(m, f, indent=1)


if __name__ == "__main__":
    main()
