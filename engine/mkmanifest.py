"""Regenerate /verif/MANIFEST.json from the table below (run by hand after editing)."""
import json
import os

VERIF = os.path.dirname(os.path.dirname(os.path.abspath(__file__)))

TECH = "bounded symbolic execution of the real Python code (CrossHair 0.0.110 + z3) per concrete tree instantiation"
NOTE = (
    "Trusted base: CrossHair's model of CPython and z3; the float model named per harness in evidence "
    "(real = mathematical reals, ieee = Float64); engine stubs listed in evidence assumptions. Bounds (stream length, "
    "tree instantiations, value ranges) are stated per harness in evidence; nothing is claimed outside them. "
    "Counterexamples are replayed on the unpatched library in plain CPython before a VIOLATION is printed."
)

CHECKS = {
    # id: (design_ref, text, technique-suffix)
    "C01": ("DESIGN.md 2/C01", "Partition invariance, identity, commutativity and associativity of + decided for all "
            "symbolic data (and symbolic weights / NaN / inf where stated) of streams n<=2..3 on every catalogue tree; "
            "each harness is either CONFIRMED over all paths, REFUTED with a replayed counterexample, or reported inconclusive.", ""),
}

NA = {
    "C14": "every step that carries the property runs inside pandas/numpy C code on DataFrame objects, which realises "
           "symbolic values at the boundary; no DataFrame model is within reach of the solver-based engines here (DESIGN.md 2/C14)",
}
PENDING = "check not built yet in this session (planned, see DESIGN.md)"


def main():
    props = [json.loads(l)["id"] for l in open(os.path.join(VERIF, "properties.jsonl"))]
    checks = []
    for pid in props:
        if pid in CHECKS:
            ref, text, tech = CHECKS[pid]
            checks.append(
                {
                    "property_id": pid,
                    "quick_cmd": f"./check {pid} --tier quick",
                    "thorough_cmd": f"./check {pid} --tier thorough",
                    "evidence_file": f"evidence/{pid}.json",
                    "replay_cmd_template": f"./check {pid} --replay {{path}}",
                    "engine": "crosshair+z3" + tech,
                    "level_claimed": {"category": "model_checking", "text": text, "design_ref": ref},
                    "level_note": NOTE,
                    "technique": TECH + tech,
                }
            )
    na = []
    for pid in props:
        if pid not in CHECKS:
            na.append({"property_id": pid, "reason": NA.get(pid, PENDING)})
    m = {
        "version": 1,
        "setup_cmd": "./bin/ensure_env.sh",
        "hooks": {
            "guard": "HISTOGRAMMAR_VERIF",
            "enable": "no source hooks are needed: all stubs are installed inside the harness process (engine/chmodel.py, engine/vp.py)",
            "baseline_off_cmd": "cd /repo && /venv/bin/python -m pytest -ra -q -p no:cacheprovider --timeout=900 --continue-on-collection-errors",
            "source_commits": [],
            "add_only": True,
        },
        "engines": [
            {
                "name": "crosshair+z3",
                "path": "engine/run.py",
                "serves_properties": sorted(CHECKS),
                "kind_free_text": "symbolic execution of the real histogrammar code with z3 (CrossHair), forced float model, parallel per-harness",
            }
        ],
        "checks": checks,
        "not_applicable": na,
        "notes": "exit 2 from a check means the machinery failed (environment, engine crash, no harness decided), never a verdict",
    }
    with open(os.path.join(VERIF, "MANIFEST.json"), "w") as f:
        json.dump(m, f, indent=1)


if __name__ == "__main__":
    main()
