"""C10 incompatible aggregators are never merged silently; a rejected merge leaves both operands unchanged."""
import catalogue as cat
from gen_common import SETUP, bounds_text
from run import Harness

ASSUMPTIONS = [
    "type pairs: one harness per left primitive, right primitive chosen by a symbolic selector over all other registered primitives",
    "structural parameters are symbolic on both sides (ieee floats: comparisons only); states are empty or hold one NaN record "
    "(which reaches nanflow without index arithmetic)",
]


def _units():
    return {t.name: t for t in cat.unit()}


def type_pairs(left, others, timeout=60):
    """left + other and left += other for every other primitive: must raise, operands unchanged."""
    mk_others = ", ".join(f"(lambda: {t.expr})" for t in others)
    setup = SETUP + f"MKL = lambda: {left.expr}\nOTHERS = [{mk_others}]\nNAMES = {[t.name for t in others]!r}\n"
    body = """
with NT():
    a = MKL()
    bs = [m() for m in OTHERS]
b = bs[k]
da = (x1, 0.25, "a", 1.0)
db = (x2, 0.75, "b", 2.5)
if fa: a.fill(da)
if fb: b.fill(db)
ja, jb = J(a), J(b)
r = raises(lambda: a + b)
if r is None: return "add-accepted:" + NAMES[k]
if not jeq(J(a), ja) or not jeq(J(b), jb): return "add-rejected-but-operand-changed:" + NAMES[k]
r = raises(lambda: b + a)
if r is None: return "radd-accepted:" + NAMES[k]
if not jeq(J(a), ja) or not jeq(J(b), jb): return "radd-rejected-but-operand-changed:" + NAMES[k]
def _iadd(p, q):
    p += q
r = raises(_iadd, a, b)
if r is None: return "iadd-accepted:" + NAMES[k]
if not jeq(J(a), ja) or not jeq(J(b), jb): return "iadd-rejected-but-operand-changed:" + NAMES[k]
r = raises(_iadd, b, a)
if r is None: return "riadd-accepted:" + NAMES[k]
if not jeq(J(a), ja) or not jeq(J(b), jb): return "riadd-rejected-but-operand-changed:" + NAMES[k] + "+=" 
"""
    return Harness(
        f"C10/types/{left.name}", [("x1", "float"), ("x2", "float"), ("k", "int"), ("fa", "bool"), ("fb", "bool")],
        f"0 <= k < {len(others)} and -2.0 <= x1 < 2.0 and -2.0 <= x2 < 2.0", body, timeout=timeout, setup=setup,
        tree=left.expr, bounds=f"left={left.name}; right in {[t.name for t in others]}; each side empty or one record with symbolic x in [-2,2)",
    )


# (name, params, pre, construction of a and b, "all parameters equal" expression)
STRUCT = [
    ("Bin", [("n1", "int"), ("n2", "int"), ("lo1", "float"), ("hi1", "float"), ("lo2", "float"), ("hi2", "float")],
     "1 <= n1 <= 3 and 1 <= n2 <= 3 and lo1 < hi1 and lo2 < hi2",
     "H.Bin(n1, lo1, hi1, qx)", "H.Bin(n2, lo2, hi2, qx)", "n1 == n2 and lo1 == lo2 and hi1 == hi2"),
    ("SparselyBin", [("w1", "float"), ("w2", "float"), ("o1", "float"), ("o2", "float")],
     "w1 > 0.0 and w2 > 0.0 and o1 == o1 and o2 == o2",
     "H.SparselyBin(w1, qx, H.Count(), H.Count(), o1)", "H.SparselyBin(w2, qx, H.Count(), H.Count(), o2)", "w1 == w2 and o1 == o2"),
    ("CentrallyBin", [("c1", "float"), ("c2", "float"), ("c3", "float"), ("c4", "float"), ("m1", "bool"), ("m2", "bool")],
     "c1 < c2 and c3 < c4 and c2 < 100.0 and c4 < 100.0",
     "H.CentrallyBin([c1, c2] + ([100.0] if m1 else []), qx)", "H.CentrallyBin([c3, c4] + ([100.0] if m2 else []), qx)",
     "c1 == c3 and c2 == c4 and m1 == m2"),
    ("IrregularlyBin", [("c1", "float"), ("c2", "float"), ("c3", "float"), ("c4", "float"), ("m1", "bool"), ("m2", "bool")],
     "c1 < c2 and c3 < c4",
     "H.IrregularlyBin([c1] + ([c2] if m1 else []), qx)", "H.IrregularlyBin([c3] + ([c4] if m2 else []), qx)",
     "c1 == c3 and m1 == m2 and (not m1 or c2 == c4)"),
    ("Stack", [("c1", "float"), ("c2", "float"), ("c3", "float"), ("c4", "float"), ("m1", "bool"), ("m2", "bool")],
     "c1 < c2 and c3 < c4",
     "H.Stack([c1] + ([c2] if m1 else []), qx)", "H.Stack([c3] + ([c4] if m2 else []), qx)",
     "c1 == c3 and m1 == m2 and (not m1 or c2 == c4)"),
    ("Bag", [("r1", "int"), ("r2", "int")], "0 <= r1 <= 3 and 0 <= r2 <= 3",
     'H.Bag(qn, sel(r1, "N", "S", "N1", "N2"))', 'H.Bag(qn, sel(r2, "N", "S", "N1", "N2"))', "r1 == r2"),
    ("Label", [("r1", "int"), ("r2", "int")], "0 <= r1 <= 3 and 0 <= r2 <= 3",
     "H.Label(**KEYSETS[r1]())", "H.Label(**KEYSETS[r2]())", "r1 == r2"),
    ("UntypedLabel", [("r1", "int"), ("r2", "int")], "0 <= r1 <= 3 and 0 <= r2 <= 3",
     "H.UntypedLabel(**KEYSETS[r1]())", "H.UntypedLabel(**KEYSETS[r2]())", "r1 == r2"),
    ("Index", [("r1", "int"), ("r2", "int")], "1 <= r1 <= 3 and 1 <= r2 <= 3",
     "H.Index(*[H.Sum(qx) for _ in range(r1)])", "H.Index(*[H.Sum(qx) for _ in range(r2)])", "r1 == r2"),
    ("Branch", [("r1", "int"), ("r2", "int")], "1 <= r1 <= 3 and 1 <= r2 <= 3",
     "H.Branch(*[H.Sum(qx) for _ in range(r1)])", "H.Branch(*[H.Sum(qx) for _ in range(r2)])", "r1 == r2"),
]

KEYSETS = """
KEYSETS = [
    lambda: dict(a=H.Sum(qx)),
    lambda: dict(a=H.Sum(qx), b=H.Sum(qx)),
    lambda: dict(b=H.Sum(qx)),
    lambda: dict(a=H.Sum(qx), c=H.Sum(qx)),
]
"""


def structural(name, params, pre, ea, eb, equal, op, filled, timeout=60, mode=None):
    twin = mode is not None
    mode = mode or ("ieee" if any(t == "float" for _, t in params) else "real")
    fill = """
a.fill((NAN, NAN, "a", NAN)); b.fill((NAN, NAN, "b", NAN))
""" if filled else ""
    if op == "add":
        do = "r = raises(lambda: a + b)"
    else:
        do = """
def _iadd(p, q):
    p += q
r = raises(_iadd, a, b)"""
    body = f"""
a = {ea}
b = {eb}
{fill}
ja, jb = J(a), J(b)
{do}
same = ({equal})
if r is None and not same: return "merge-accepted-although-parameters-differ"
if r is not None and same: return "merge-of-identical-structure-rejected:" + str(r)
if r is not None:
    if not jeq(J(a), ja): return "rejected-merge-changed-left-operand"
    if not jeq(J(b), jb): return "rejected-merge-changed-right-operand"
"""
    return Harness(
        f"C10/struct/{name}/{op}/{'filled' if filled else 'empty'}" + ("/real" if twin else ""), params, pre, body, mode=mode, timeout=timeout,
        setup=SETUP + KEYSETS, tree=f"{ea}  vs  {eb}",
        bounds=f"structural parameters of both operands symbolic ({pre}); states {'hold one NaN record' if filled else 'empty'}",
    )


NEAR = {
    "Bin.low": "H.Bin(2, v, 2e6, qx)",
    "Bin.high": "H.Bin(2, -8.0, v, qx)",
    "SparselyBin.binWidth": "H.SparselyBin(v, qx)",
    "SparselyBin.origin": "H.SparselyBin(1.0, qx, H.Count(), H.Count(), v)",
    "CentrallyBin.center": "H.CentrallyBin([-8.0, v], qx)",
    "IrregularlyBin.edge": "H.IrregularlyBin([-8.0, v], qx)",
    "Stack.threshold": "H.Stack([-8.0, v], qx)",
    "Bin.low(neg)": "H.Bin(2, -v, 8.0, qx)",
    "Label>SparselyBin.binWidth": "H.Label(a=H.SparselyBin(v, qx), b=H.SparselyBin(1.0, qx))",
    "Bin>Bin.high": "H.Bin(2, 0.0, 2.0, qx, H.Bin(2, -8.0, v, qy))",
}


def near(name, expr, timeout=40):
    """structural parameters that differ by an ulp or by a relative 1e-12 (tolerant comparisons would let them through):
    base value and neighbour are concrete, chosen by symbolic selectors"""
    body = f"""
import math as _m
base = sel(kb, 0.1, 0.3, 1.0, 1e6 + 0.1, 0.1 + 0.2)
other = sel(ko, base, _m.nextafter(base, _m.inf), _m.nextafter(base, -_m.inf), base * (1.0 + 1e-12), base + 1e-13, 0.3 / 3 if kb == 0 else base)
P = lambda v: {expr}
with NT():
    a = P(base); b = P(other)
    ja, jb = J(a), J(b)
    r1 = raises(lambda: a + b)
    def _iadd(p, q):
        p += q
    r2 = raises(_iadd, P(base), P(other))
    same = (base == other)
    unchanged = jeq(J(a), ja) and jeq(J(b), jb)
if same and (r1 is not None or r2 is not None): return "merge-of-identical-structure-rejected"
if not same and r1 is None: return "add-accepted-although-parameter-differs-slightly"
if not same and r2 is None: return "iadd-accepted-although-parameter-differs-slightly"
if not unchanged: return "rejected-merge-changed-operand"
"""
    return Harness(f"C10/near/{{}}".format(name), [("kb", "int"), ("ko", "int")], "0 <= kb <= 4 and 0 <= ko <= 5", body, timeout=timeout,
                   setup=SETUP, tree=expr, bounds="parameter = one of 5 base values; other operand's parameter = same | +-1 ulp | x(1+1e-12) | +1e-13 | 0.3/3 (concrete, by selectors)")


# nested mismatch: parent identical, child differs (type or parameter) one level down
PARENTS = {
    "Bin.value": "H.Bin(2, 0.0, 2.0, qx, {c})",
    "Bin.underflow": "H.Bin(2, 0.0, 2.0, qx, H.Count(), {c}, H.Count(), H.Count())",
    "Bin.nanflow": "H.Bin(2, 0.0, 2.0, qx, H.Count(), H.Count(), H.Count(), {c})",
    "SparselyBin.value": "H.SparselyBin(1.0, qx, {c})",
    "SparselyBin.nanflow": "H.SparselyBin(1.0, qx, H.Count(), {c})",
    "CentrallyBin.value": "H.CentrallyBin([0.0, 2.0], qx, {c})",
    "IrregularlyBin.value": "H.IrregularlyBin([0.0, 1.0], qx, {c})",
    "Stack.value": "H.Stack([0.0, 1.0], qx, {c})",
    "Fraction.value": "H.Fraction(qb, {c})",
    "Select.cut": "H.Select(qb, {c})",
    "Categorize.value": "H.Categorize(qc, {c})",
    "Label": "H.Label(a={c}, b={c})",
    "UntypedLabel": "H.UntypedLabel(a={c}, b=H.Count())",
    "Index": "H.Index({c}, {c})",
    "Branch": "H.Branch(H.Count(), {c})",
}
CHILDREN = ["H.Sum(qy)", "H.Average(qy)", "H.Bin(2, 0.0, 2.0, qy)", "H.Bin(3, 0.0, 2.0, qy)", "H.Minimize(qy)", "H.Count()",
            "H.Select(qb, H.Bin(2, 0.0, 2.0, qy))", "H.Select(qb, H.Bin(3, 0.0, 2.0, qy))"]
DEEPER = [CHILDREN[0], CHILDREN[2], CHILDREN[6], CHILDREN[7]]  # the last two differ only below what repr() shows


def nested(pname, tmpl, op, what, timeout=60, nchild=6, variant="live"):
    """what = 'accept': the merge is accepted iff the children are identical in structure;
       what = 'unchanged': a rejected merge leaves both operands unchanged."""
    CH = DEEPER if variant.startswith("deeper") else (["H.Count()", "H.Sum(qy)", "H.Bin(2, 0.0, 2.0, qy)"] if variant == "numpy-left" else CHILDREN[:nchild])
    mks = ", ".join("(lambda: %s)" % tmpl.format(c=c) for c in CH)
    setup = SETUP + f"MKS = [{mks}]\nTYPES = {[c.split('(')[0] for c in CH]!r}\nVARIANT = {variant!r}\n"
    if op == "add":
        do = "r = raises(lambda: a + b)"
    else:
        do = """
def _iadd(p, q):
    p += q
r = raises(_iadd, a, b)"""
    sparse_parent = pname.split(".")[0] in ("SparselyBin", "Categorize") and pname.endswith(".value")
    if what == "accept":
        asserts = """
differs = (k1 != k2)
""" + ("""
# an empty sparse container reloaded from JSON carries only the *type name* of its content: a structural difference
# below that name cannot be known, so only a different type name must be rejected then
if (ra and not fa) or (rb and not fb): differs = (TYPES[k1] != TYPES[k2])
""" if sparse_parent else "") + """
if r is None and differs: return "merge-accepted-although-child-differs"
if r is not None and k1 == k2: return "merge-of-identical-structure-rejected:" + str(r)
"""
    else:
        asserts = """
if r is not None:
    if not jeq(J(a), ja): return "rejected-merge-changed-left-operand"
    if not jeq(J(b), jb): return "rejected-merge-changed-right-operand"
"""
    ra, rb, fa, fb = {"live": (False, False, True, True), "reloaded-left": (True, False, True, True),
                      "reloaded-right": (False, True, True, True), "reloaded-empty-left": (True, False, False, True), "deeper-reloaded": (True, True, True, True), "numpy-left": (False, False, True, True),
                      "empty-right": (False, False, True, False), "both-reloaded": (True, True, True, True)}[variant]
    body = f"""
ra, rb, fa, fb = {ra}, {rb}, {fa}, {fb}
mka = MKS[k1]; mkb = MKS[k2]
with NT():
    a = mka()
    b = mkb()
d1 = (x1, 0.25, "a", 1.0); d2 = (x2, 0.75, sel(c2, "a", "b"), 1.0)
if fa and VARIANT == "numpy-left":
    import gen_shim_np as _g
    with _g.NPM():
        a.fill.numpy(_g.columns([d1]))
elif fa: a.fill(d1)
if fb: b.fill(d2)
if VARIANT.startswith("deeper"):
    with NT():   # history: compatible merges of the same shapes have happened before in this process
        for mk in MKS:
            u, v = mk(), mk()
            u.fill((0.5, 0.25, "a", 1.0)); v.fill((1.5, 0.75, "b", 1.0))
            w_ = u + v; u += v; ru = Factory.fromJson(J(u)); w2 = ru + Factory.fromJson(J(v))
if ra: a = Factory.fromJson(J(a))   # immutable form (no value templates)
if rb: b = Factory.fromJson(J(b))
ja, jb = J(a), J(b)
{do}
{asserts}
"""
    return Harness(
        f"C10/nested/{pname}/{op}/{what}" + ("" if variant == "live" else "/" + variant), [("k1", "int"), ("k2", "int"), ("x1", "float"), ("x2", "float"), ("c2", "int")],
        f"0 <= k1 < {len(CH)} and 0 <= k2 < {len(CH)} and -2.0 <= x1 < 2.0 and -2.0 <= x2 < 2.0 and 0 <= c2 <= 1", body,
        timeout=timeout, setup=setup, tree=tmpl, bounds=f"child of both operands chosen by symbolic selectors over {CH}; one record each, x symbolic in [-2,2); operands: " + variant + " (live = filled mutable trees; reloaded = immutable form from JSON; empty = never filled)",
    )


def harnesses(tier):
    out = []
    units = cat.unit()
    for t in units:
        others = [u for u in units if u.name != t.name]
        out.append(type_pairs(t, others, timeout=90 if tier == "quick" else 240))
    for name, params, pre, ea, eb, equal in STRUCT:
        for op in ("add", "iadd"):
            out.append(structural(name, params, pre, ea, eb, equal, op, False))
            if any(t == "float" for _, t in params) and op == "add":
                # exact-real twin: parameters that differ by an arbitrarily small amount (tolerant comparisons) must still be rejected
                out.append(structural(name, params, pre, ea, eb, equal, op, False, mode="real"))
            if name != "Bag":  # a NaN record is not a valid Bag key for every range
                out.append(structural(name, params, pre, ea, eb, equal, op, True))
    for n, e in NEAR.items():
        out.append(near(n, e))
    for pname, tmpl in PARENTS.items():
        for op in ("add", "iadd"):
            for what in ("accept", "unchanged"):
                out.append(nested(pname, tmpl, op, what, timeout=90 if tier == "quick" else 300, nchild=4 if tier == "quick" else 6))
            sparse = pname.split(".")[0] in ("SparselyBin", "Categorize") and pname.endswith(".value")
            variants = ["reloaded-left"] + (["reloaded-empty-left", "empty-right", "deeper-reloaded"] if sparse else []) + (["numpy-left"] if pname.startswith(("Bin.value", "Select", "CentrallyBin", "Stack", "IrregularlyBin")) else [])
            if tier == "thorough":
                variants += ["reloaded-right", "both-reloaded"]
            for v in variants:
                out.append(nested(pname, tmpl, op, "accept", timeout=90 if tier == "quick" else 300, nchild=4 if tier == "quick" else 6, variant=v))
    return out
