"""C05 bookkeeping invariants: (a) every float lands in exactly one bin without error -- kernel encoder (E2, IEEE);
(b) totals conserve over operation histories -- E1 (real)."""
import catalogue as cat
from gen_common import SETUP, SPECIAL_XY, bounds_text, data_params
from run import Harness
import gen_C03

ASSUMPTIONS = [
    "vectorised steps (op 'np') go through engine/npmodel.py, validated against numpy by the C03 check's pre-check",
    "(b) histories: the operation sequence is concrete per harness (enumerated by the generator), every datum, weight and factor "
    "in it is symbolic; invariants are asserted after every step; equalities are exact over the reals",
]

C05_SETUP = gen_C03.C03_SETUP + '''
def inv(h, total):
    """None if every bookkeeping invariant of the property holds for the subtree at h (whose entries must equal total)"""
    t = h.name
    e = h.entries
    if not (e >= 0.0): return t + ".entries-negative"
    if total is not None and e != total: return t + ".entries-differs-from-accepted-weight"
    if t == "Bin":
        s = h.underflow.entries + h.overflow.entries + h.nanflow.entries
        for v in h.values: s = s + v.entries
        if s != e: return "Bin.bins-plus-flows-differ-from-entries"
        subs = list(h.values) + [h.underflow, h.overflow, h.nanflow]
    elif t == "SparselyBin":
        s = h.nanflow.entries
        for v in h.bins.values(): s = s + v.entries
        if s != e: return "SparselyBin.bins-plus-nanflow-differ-from-entries"
        subs = list(h.bins.values()) + [h.nanflow]
    elif t in ("CentrallyBin", "IrregularlyBin"):
        s = h.nanflow.entries
        for c, v in h.bins: s = s + v.entries
        if s != e: return t + ".bins-plus-nanflow-differ-from-entries"
        subs = [v for c, v in h.bins] + [h.nanflow]
    elif t == "Stack":
        lv = [v.entries for c, v in h.bins]
        th = [c for c, v in h.bins]
        if all(th[i] <= th[i + 1] for i in range(len(th) - 1)):   # the property states it for increasing thresholds only
            for i in range(len(lv) - 1):
                if lv[i] < lv[i + 1]: return "Stack.levels-increase"
        if lv[0] + h.nanflow.entries != e: return "Stack.level0-plus-nanflow-differ-from-entries"
        subs = [v for c, v in h.bins] + [h.nanflow]
    elif t == "Categorize":
        s = 0.0
        for v in h.bins.values(): s = s + v.entries
        if s != e: return "Categorize.bins-differ-from-entries"
        subs = list(h.bins.values())
    elif t in ("Label", "UntypedLabel", "Index", "Branch"):
        subs = list(h.values)
        for v in subs:
            if v.entries != e: return t + ".child-entries-differ-from-parent"
    elif t == "Fraction":
        if h.denominator.entries != e: return "Fraction.denominator-differs-from-entries"
        subs = [h.numerator, h.denominator]
    elif t == "Select":
        subs = [h.cut]
    elif t == "Bag":
        s = 0.0
        for w in h.values.values(): s = s + w
        if s != e: return "Bag.weights-differ-from-entries"
        subs = []
    else:
        subs = []
    for v in subs:
        r = inv(v, None)
        if r is not None: return r
    return None
'''

# operation alphabet: code snippets over pool (a, b), ghosts (ga, gb) and the i-th symbolic datum/weight/factor
OPS = {
    "fa": ("a.fill(data[{i}], ws[{i}]); ga = ga + (ws[{i}] if ws[{i}] > 0.0 else 0.0)", True),
    "fb": ("b.fill(data[{i}], ws[{i}]); gb = gb + (ws[{i}] if ws[{i}] > 0.0 else 0.0)", True),
    "add": ("a = a + b; ga = ga + gb", False),
    "iadd": ("a += b; ga = ga + gb", False),
    "mul": ("a = a * f; ga = (ga * f) if f > 0.0 else 0.0", False),
    "copy": ("a = a.copy()", False),
    "json": ("a = Factory.fromJson(J(a))", False),
    "zero": ("b = a.zero(); gb = 0.0", False),
    # vectorised fill of two records with an explicit weight array (through the validated numpy model)
    "np": ("WA = ARR([ws[{i}], ws[{i}+1]])\nwith NPM():\n    a.fill.numpy(columns(data[{i}:{i}+2]), WA)\nga = ga + ws[{i}] + ws[{i}+1]", 2),
}
SEQS = [
    ("fa", "fa"), ("fa", "fb", "add"), ("fa", "fb", "iadd"), ("fa", "mul"), ("fa", "copy", "fa"),
    ("fa", "json", "fb", "add"), ("fa", "fb", "iadd", "fa"), ("fa", "mul", "fa"), ("fa", "fb", "add", "mul"),
    ("fa", "zero", "fb", "iadd"), ("fa", "json", "mul"),
]
SEQS_T = SEQS + [
    ("fa", "fa", "fa"), ("fa", "fb", "add", "fa", "fb", "iadd"), ("fa", "mul", "fb", "iadd", "mul"), ("fa", "fb", "iadd", "json", "fb", "add"),
    ("fa", "copy", "fa", "fb", "add"), ("fb", "fa", "fa", "iadd", "copy", "mul"),
]


def _setup(tree):
    return C05_SETUP + f"MK = lambda: {tree.expr}\n"


def history(tree, seq, special=False, timeout=60, fixy=False):
    nfill = sum(int(OPS[o][1]) for o in seq)
    vector = "np" in seq
    p, pre, code = data_params(tree, nfill, weights=True, mode="real", special=special, wsign="pos" if vector else "any", fix_leaf_y=fixy)
    if vector:
        code = code.replace("None", '"c"')
        pre = [q.replace("> 0.0", ">= 0.0") if q.startswith("w") else q for q in pre]
    params = list(p)
    if "mul" in seq:
        params.append(("f", "float"))
    steps = []
    i = 0
    for o in seq:
        snippet, isfill = OPS[o]
        steps.append(snippet.format(i=i))
        i += int(isfill)
        steps.append(f'r = inv(a, ga)\nif r is not None: return "after {o}: " + r')
        steps.append(f'r = inv(b, gb)\nif r is not None: return "pool-b after {o}: " + r')
    body = code + "a, b = fresh(MK, 2)\nga = 0.0; gb = 0.0\n" + "\n".join(steps) + "\n"
    name = "-".join(seq)
    return Harness(
        f"C05/hist/{tree.name}/{name}" + ("/s" if special else "") + ("-fixy" if fixy else ""), params, " and ".join(pre), body,
        timeout=timeout, setup=_setup(tree), tree=tree.expr,
        special=(r"^x\d+(_\d+)?$" if vector else SPECIAL_XY) if special else None,
        bounds=bounds_text(tree, nfill, history=name, weights="symbolic finite, any sign", factor="symbolic finite, any sign" if "mul" in seq else "-"),
    )


TREES = ("Bin", "SparselyBin", "CentrallyBin", "IrregularlyBin", "Categorize", "Stack", "Fraction", "Select", "Bag",
         "Label", "UntypedLabel", "Index", "Branch")


NP_SEQS = [("np",), ("fa", "np"), ("np", "fb", "add")]


def harnesses(tier):
    out = []
    units = [t for t in cat.unit() if t.name in TREES]
    vec_trees = [t for t in units if t.name != "Bag"] + [cat.Tree(n, e) for n, e in gen_C03.EXTRA if "transform" not in n]
    for t in vec_trees:
        for s in NP_SEQS if tier == "thorough" else NP_SEQS[:2]:
            out.append(history(t, s, special=True, timeout=90 if tier == "quick" else 300, fixy=True))
    seqs = SEQS if tier == "quick" else SEQS_T
    for t in units:
        for s in seqs:
            out.append(history(t, s, timeout=60 if tier == "quick" else 240))
        out.append(history(t, ("fa", "fb", "add"), special=True, timeout=90))
        out.append(history(t, ("fa", "mul"), special=True, timeout=90))
        out.append(history(t, ("fa", "fb", "iadd", "mul"), special=True, timeout=120))
    deep = cat.deep() + [t for i, t in enumerate(cat.slot()) if i % (16 if tier == "quick" else 3) == 7]
    for t in deep:
        for s in (("fa", "fb", "add"), ("fa", "fb", "iadd", "mul")):
            out.append(history(t, s, timeout=60 if tier == "quick" else 300, fixy=True))
    return out


def pre_checks(tier, workdir):
    import kernels

    return kernels.run_C05(tier, workdir)
