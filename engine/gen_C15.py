"""C15 malformed or foreign JSON is rejected, never loaded as a corrupted aggregator."""
import re

import catalogue as cat
from gen_common import SETUP
from run import Harness

ASSUMPTIONS = [
    "documents are produced by toJson() of the current code from each catalogue UNIT tree filled with two concrete records",
    "single-point mutations only: one position replaced by a typed symbolic hole (bool | int | float | str len<=4 | None | "
    "[atom] | {'k': atom} | [] | {}), one key deleted, or one key added (name from a finite alphabet, atom value)",
    "accepted mutants must re-serialise to the mutated document (numbers by value, None-valued optional keys dropped, "
    "dict order ignored, header version excluded); anything that raises is accepted as a rejection",
]

RECS = '[(0.5, 1.5, "a", 1.0), (-1.0, 0.25, "b", 2.5)]'

C15_SETUP = SETUP + '''
import copy as _copy
nx = U.named("nx", lambda d: d[0])
ny = U.named("ny", lambda d: d[1])
RECS = ''' + RECS + '''

def mkdoc():
    h = MK()
    for d in RECS:
        h.fill(d)
    return h.toJson()

def warmup():
    """history before the observed call: one valid document of every catalogue unit tree has been parsed in this process
    (decoders must not carry state from one fromJson call to the next)"""
    with NT():
        for mk in ALLMK:
            h = mk()
            for d in RECS:
                h.fill(d)
            Factory.fromJson(h.toJson())

def setpath(doc, path, value):
    node = doc
    for k in path[:-1]:
        node = node[k]
    node[path[-1]] = value

def delpath(doc, path):
    node = doc
    for k in path[:-1]:
        node = node[k]
    del node[path[-1]]

def getpath(doc, path):
    node = doc
    for k in path:
        node = node[k]
    return node

def norm(doc):
    """drop None-valued keys (absent optional keys) recursively"""
    if isinstance(doc, dict):
        return {k: norm(v) for k, v in doc.items() if v is not None}
    if isinstance(doc, (list, tuple)):
        return [norm(v) for v in doc]
    return doc

def jclass(v):
    """JSON type class; a number-like string ('nan', 'inf', '-inf') and a bool count as numbers (the format's own rule)"""
    if v is None:
        return "null"
    if isinstance(v, (bool, int, float)):
        return "number"
    if isinstance(v, str):
        return "number" if v in ("nan", "inf", "-inf") else "string"
    if isinstance(v, dict):
        return "object"
    return "array"

def verdict(mut, same_class=False):
    """'' if fromJson(mut) raises, or returns an aggregator that re-serialises (and, when the mutation changed the JSON
    type of a value or the key set, whose serialisation equals mut); else a label.
    A number replaced by another number is a *value* change, not a structural one: only 'it still serialises' is required."""
    try:
        r = Factory.fromJson(mut)
    except Exception:
        return ""
    try:
        out = r.toJson()
    except Exception as e:
        return "accepted-but-cannot-reserialise:" + type(e).__name__
    if set(mut.keys()) != set(out.keys()):
        return "accepted-with-foreign-top-level-keys"
    if same_class:
        return ""
    if not jeq(out["type"], mut["type"]):
        return "accepted-with-different-type"
    if not jeq(norm(out["data"]), norm(mut["data"])):
        return "accepted-with-different-content"
    return ""
'''

KINDS = ["bool", "int", "float", "str", "None", "[atom]", "{k:atom}", "[]", "{}"]


def named_expr(tree):
    e = re.sub(r"\bqx\b", "nx", tree.expr)
    return re.sub(r"\bqy\b", "ny", e)


def doc_paths(expr):
    """Enumerate positions of the valid document by building it with the current code (plain python)."""
    ns = {}
    exec("import sys\nsys.path.insert(0, %r)\nfrom vp import *\n" % __import__("os").path.dirname(__file__) + C15_SETUP + f"MK = lambda: {expr}\n", ns)
    doc = ns["mkdoc"]()
    paths = []

    def walk(node, path):
        if path:
            paths.append(path)
        if isinstance(node, dict):
            for k in node:
                walk(node[k], path + (k,))
        elif isinstance(node, list):
            for i in range(len(node)):
                walk(node[i], path + (i,))

    walk(doc, ())
    dicts = [p for p in [()] + paths if isinstance(ns["getpath"](doc, p), dict)]
    return doc, paths, dicts


def _is_bag_key_path(path):
    return len(path) >= 1 and path[-1] == "v"


def holes(name, expr, paths, idx, timeout=90):
    kinds = KINDS
    body = f"""
path = PATHS[p]
warmup()
with NT():
    doc = mkdoc()
atom = hi
if t == 0: hole = hb
elif t == 1: hole = hi
elif t == 2: hole = hf
elif t == 3: hole = hs
elif t == 4: hole = None
elif t == 5: hole = [atom]
elif t == 6: hole = {{"k": atom}}
elif t == 7: hole = []
else: hole = {{}}
orig = getpath(doc, path)
setpath(doc, path, hole)
v = verdict(doc, jclass(orig) == jclass(hole))
if v: return v + " at " + repr(path) + " kind " + str(t)
if path[-1] == "entries" and jclass(hole) == "number" and not isinstance(hole, str) and hole < 0:
    try:
        Factory.fromJson(doc)
    except Exception:
        return ""
    return "negative-entries-accepted at " + repr(path)
"""
    return Harness(
        f"C15/hole/{name}/{idx}", [("p", "int"), ("t", "int"), ("hb", "bool"), ("hi", "int"), ("hf", "float"), ("hs", "str")],
        f"0 <= p < {len(paths)} and 0 <= t <= 8 and len(hs) <= 4", body, timeout=timeout,
        setup=C15_SETUP + f"MK = lambda: {expr}\nPATHS = {paths!r}\n", tree=expr,
        bounds=f"document of {name}; positions {paths}; hole kinds {kinds}; str len<=4; float = finite real",
    )


ADDED = ["x", "name", "entries", "data", "type", "sub:type", "0", "w", "zz", "7.0", "1e3", " 5", "-0"]


def keys(name, expr, dicts, delpaths, timeout=90):
    body = f"""
warmup()
with NT():
    doc = mkdoc()
if op == 0:
    path = DELS[p % {len(delpaths)}]
    delpath(doc, path)
else:
    path = DICTS[p % {len(dicts)}]
    node = getpath(doc, path)
    newv = sel(t, hi, hs, None, hb)
    had = ADDED[k] in node
    same = had and jclass(node[ADDED[k]]) == jclass(newv)
    node[ADDED[k]] = newv
if op == 0: same = False
v = verdict(doc, same)
if v: return v + (" deleting " if op == 0 else " adding key to ") + repr(path)
"""
    n = max(len(dicts), len(delpaths))
    return Harness(
        f"C15/keys/{name}", [("op", "int"), ("p", "int"), ("k", "int"), ("t", "int"), ("hi", "int"), ("hs", "str"), ("hb", "bool")],
        f"0 <= op <= 1 and 0 <= p < {n} and 0 <= k < {len(ADDED)} and 0 <= t <= 3 and len(hs) <= 3", body, timeout=timeout,
        setup=C15_SETUP + f"MK = lambda: {expr}\nDICTS = {dicts!r}\nDELS = {delpaths!r}\nADDED = {ADDED!r}\n", tree=expr,
        bounds=f"document of {name}; delete each key at {len(delpaths)} positions; add one key from {ADDED} (int|str|None|bool value) to each of {len(dicts)} dicts",
    )


NAMEKEYS = ["name", "values:name", "bins:name", "sub:name", "underflow:name", "nanflow:name"]
BADNAMES = "[0, False, [], {}, 0.0, 7, True, [1], {'a': 1}, 2.5]"


def names(name, expr, dicts, timeout=60):
    """round 5: a *name* field of a wrong JSON type (falsy ones included) anywhere in the document must be rejected -
    whether or not the dict admits that key.  Selectors are symbolic, the body runs untraced."""
    body = f"""
warmup()
p = sel(p, {", ".join(map(str, range(len(dicts))))}{"," if len(dicts) == 1 else ""})
k = sel(k, {", ".join(map(str, range(len(NAMEKEYS))))})
t = sel(t, 0, 1, 2, 3, 4, 5, 6, 7, 8, 9)
with NT():
    doc = mkdoc()
    path = DICTS[p]
    node = getpath(doc, path)
    res = ""
    # only aggregator records: maps keyed by user data (categories, labels) may legitimately hold any key
    if isinstance(node, dict) and "entries" in node and not isinstance(node["entries"], dict) and "a" not in node and "" not in node:
        node[NAMEKEYS[k]] = BADNAMES[t]
        try:
            Factory.fromJson(doc)
            res = "non-string-name-accepted:" + NAMEKEYS[k] + "=" + repr(BADNAMES[t]) + " at " + repr(path)
        except Exception:
            res = ""
if res: return res
"""
    return Harness(
        f"C15/names/{{name}}".format(name=name), [("p", "int"), ("k", "int"), ("t", "int")],
        f"0 <= p < {len(dicts)} and 0 <= k < {len(NAMEKEYS)} and 0 <= t < 10", body, timeout=timeout,
        setup=C15_SETUP + f"MK = lambda: {expr}\nDICTS = {dicts!r}\nNAMEKEYS = {NAMEKEYS!r}\nBADNAMES = {BADNAMES}\n", tree=expr,
        bounds=f"document of {name}; each of {len(dicts)} dicts x name key from {NAMEKEYS} x value from {BADNAMES} (by selector); must be rejected",
    )


def valid(name, expr, timeout=30):
    body = """
with NT():
    doc = mkdoc()
    doc2 = mkdoc()
    try:
        r = Factory.fromJson(doc)
        out = r.toJson()
        err = ""
    except Exception as e:
        err = "valid-document-rejected:" + type(e).__name__
    same_doc = (err == "") and jeq(out, doc2)
if err: return err
if not same_doc: return "valid-document-changed-by-reload"
if k == 1:
    doc["version"] = ver
    try:
        Factory.fromJson(doc)
    except Exception:
        return ""
    return "non-string-version-accepted"
if k == 2:
    doc["type"] = ts
    try:
        r = Factory.fromJson(doc)
    except Exception:
        return ""
    if r.name != ts: return "unknown-type-name-accepted"
"""
    return Harness(f"C15/valid/{name}", [("k", "int"), ("ver", "int"), ("ts", "str")], "0 <= k <= 2 and len(ts) <= 5", body,
                   timeout=timeout, setup=C15_SETUP + f"MK = lambda: {expr}\n", tree=expr,
                   bounds=f"valid document of {name} accepted and stable; version := symbolic int; type := symbolic str len<=5")


def produced(name, expr, timeout=40):
    """"every document produced by toJson is accepted": states beyond the two-record fill (empty, zero(), scaled by 0, merged,
    filled with NaN / inf quantities and zero weights), by selector; body untraced"""
    body = """
k = sel(k, 0, 1, 2, 3, 4, 5, 6, 7)
with NT():
    h = MK()
    special = [(NAN, INF, "a", 1.0), (-INF, NAN, "", 0.0), (0.5, 1.5, "b", 2.5)]
    if k in (1, 3, 4, 5, 6): [h.fill(d) for d in RECS]
    if k in (2, 6, 7): [h.fill(d, w) for d, w in zip(special, (1.0, 2.5, 0.0))]
    if k == 3: h = h.zero()
    if k == 4: h = h * 0.0
    if k == 5: h = (h + h) * 2.5
    if k == 7: h = h + MK()
    res = ""
    try:
        doc = h.toJson()
        r = Factory.fromJson(doc)
        if not jsame(r.toJson(), h.toJson()): res = "produced-document-changed-by-reload"
        r2 = Factory.fromJsonString(h.toJsonString())
        if not jsame(r2.toJson(), h.toJson()): res = res or "produced-string-document-changed-by-reload"
    except Exception as e:
        res = "produced-document-rejected:" + type(e).__name__
if res: return res
"""
    return Harness(f"C15/produced/{name}", [("k", "int")], "0 <= k <= 7", body, timeout=timeout, setup=C15_SETUP + f"MK = lambda: {expr}\n", tree=expr,
                   bounds="state by selector: fresh | 2 records | NaN/inf records with a zero weight | zero() | *0.0 | (h+h)*2.5 | both fills | + empty; toJson and toJsonString, reload must re-serialise identically")


BUILT = [
    ("Stack.build(Count,Count)", "H.Stack.build(_filled(H.Count()), _filled(H.Count()), H.Count())"),
    ("Stack.build(Bin,Bin)", "H.Stack.build(_filled(H.Bin(2, 0.0, 2.0, nx)), _filled(H.Bin(2, 0.0, 2.0, nx)))"),
    ("Stack.build+Stack.build", "H.Stack.build(_filled(H.Sum(nx)), H.Sum(nx))"),
    ("Fraction.build(Bin,Bin)", "H.Fraction.build(_filled(H.Bin(2, 0.0, 2.0, nx)), _filled(H.Bin(2, 0.0, 2.0, nx)))"),
    ("Fraction.build(Count,Count)", "H.Fraction.build(H.Count(), _filled(H.Count()))"),
    ("Label(ed)", "H.Label.ed(2.0, {'a': H.Count.ed(1.0), 'b': H.Count.ed(0.0)})"),
    ("Bin.ed(inf)", "H.Bin.ed(-INF, INF, 1.0, [H.Count.ed(1.0)], H.Count.ed(0.0), H.Count.ed(0.0), H.Count.ed(0.0))"),
    ("Minimize.ed(nan)", "H.Minimize.ed(0.0, NAN)"),
    ("Bag.ed(nan-key)", "H.Bag.ed(1.0, {'nan': 1.0}, 'N')"),
    ("toImmutable", "_filled(H.Select(nx, H.Bin(2, 0.0, 2.0, ny))).toImmutable()"),
]


def produced_built(timeout=40):
    body = """
k = sel(k, %s)
with NT():
    def _filled(h):
        for d in RECS: h.fill(d)
        return h
    MKS = [%s]
    res = ""
    try:
        h = MKS[k]()
        doc = h.toJson()
        r = Factory.fromJson(doc)
        if not jsame(r.toJson(), doc): res = "produced-document-changed-by-reload:" + NAMES[k]
        r2 = Factory.fromJsonString(h.toJsonString())
        if not jsame(r2.toJson(), doc): res = res or "produced-string-document-changed-by-reload:" + NAMES[k]
    except Exception as e:
        res = "produced-document-rejected:%%s:%%s" %% (NAMES[k], type(e).__name__)
if res: return res
""" % (", ".join(str(i) for i in range(len(BUILT))), ", ".join("lambda: " + e for _, e in BUILT))
    return Harness("C15/produced/built-and-immutable", [("k", "int")], f"0 <= k <= {len(BUILT) - 1}", body, timeout=timeout,
                   setup=C15_SETUP + "MK = None\nNAMES = %r\n" % [n for n, _ in BUILT], tree="; ".join(n for n, _ in BUILT),
                   bounds="documents of aggregators made by the public build()/ed()/toImmutable() constructors (by selector); reload must re-serialise identically")


def _allmk():
    return "ALLMK = [" + ", ".join("(lambda: %s)" % named_expr(t) for t in cat.unit()) + "]\n"


def harnesses(tier):
    global C15_SETUP
    if "ALLMK = [" not in C15_SETUP:
        C15_SETUP = C15_SETUP + _allmk()
    out = [produced_built()]
    chunk = 3 if tier == "quick" else 2
    for t in cat.unit() + cat.extra_unit() + (cat.deep() if tier == "thorough" else cat.deep()[:4]):
        out.append(produced(t.name, named_expr(t)))
    for t in cat.unit():
        expr = named_expr(t)
        doc, paths, dicts = doc_paths(expr)
        paths = [p for p in paths if p != ("version",)]
        out.append(valid(t.name, expr))
        plain = [p for p in paths if not _is_bag_key_path(p)]
        for i in range(0, len(plain), chunk):
            out.append(holes(t.name, expr, plain[i : i + chunk], i // chunk, timeout=90 if tier == "quick" else 240))
        dels = [p for p in paths if not isinstance(p[-1], int)]
        out.append(keys(t.name, expr, dicts, dels, timeout=90 if tier == "quick" else 240))
        out.append(names(t.name, expr, dicts))
    return out
