"""further C08 harnesses: IEEE entries of a scaled container; collections assembled from filled children"""
import catalogue as cat
from gen_common import SETUP, bounds_text
from run import Harness


def _setup(tree):
    return SETUP + f"MK = lambda: {tree.expr}\n"


def ieee_entries(tree, timeout=90):
    """IEEE weights: the entries of the scaled aggregator are exactly f * entries (one multiplication of the running total,
    not a re-summation of separately scaled parts); routing values are concrete, weights and factor are symbolic Float64"""
    body = """
a = fresh(MK, 1)[0]
a.fill((0.5, 0.25, "a", 1.0), w1)
a.fill((1.5, 0.75, "b", 2.5), w2)
e = a.entries
s = a * f
if s.entries != f * e: return "scaled-entries-differ-from-f-times-entries"
if (f * a).entries != f * e: return "rscaled-entries-differ-from-f-times-entries"
"""
    return Harness(f"C08/ieee-entries/{tree.name}", [("w1", "float"), ("w2", "float"), ("f", "float")],
                   "w1 > 0.0 and w1 < 1e100 and w2 > 0.0 and w2 < 1e100 and f > 0.0 and f < 1e100", body, mode="ieee", timeout=timeout,
                   setup=_setup(tree), tree=tree.expr, bounds=bounds_text(tree, 2, weights="two symbolic Float64 weights in (0, 1e100)", factor="symbolic Float64 in (0, 1e100)"))


def assembled(timeout=60):
    """a collection assembled from children that were filled on their own (its own entries are still 0)"""
    body = """
with NT():
    h1 = H.Bin(2, 0.0, 2.0, qx); s1 = H.Sum(qy); c1 = H.Count()
    for t in (h1, s1, c1): t._checkForCrossReferences()
d = (x, y, "a", 1.0)
h1.fill(d); s1.fill(d); c1.fill(d)
b = sel(k, H.Branch(h1, s1, c1), H.UntypedLabel(hist=h1, tot=s1, n=c1), H.Index(s1, s1.copy()), H.Label(a=s1, b=s1.copy()))
sc = b * f
kids_b, kids_s = b.values, sc.values
if len(kids_b) != len(kids_s): return "children-lost"
for u, v in zip(kids_b, kids_s):
    if not jeq(J(v), J(u * f)): return "child-of-assembled-collection-not-scaled-like-the-child-alone"
if not jeq(J(Factory.fromJson(J(b)) * f), J(sc)): return "reloaded-assembled-collection-scales-differently"
if not jeq(J(b * 2), J(b + b)): return "times-2-vs-self-plus-self"
"""
    return Harness("C08/assembled-collection", [("x", "float"), ("y", "float"), ("f", "float"), ("k", "int")], "f > 0.0 and 0 <= k <= 3", body,
                   timeout=timeout, setup=SETUP, tree="Branch / UntypedLabel / Index / Label built from already filled children",
                   bounds="one symbolic record filled into the children before the collection is assembled; symbolic factor > 0")


def numpy_factor(tree, timeout=40):
    """the factor is a numpy scalar (np.float64 is a float): numpy.float64(f) * h must end in h.__rmul__ like f * h does
    (an aggregator that looks array-like to numpy is broadcast over instead); concrete, real numpy, untraced"""
    body = """
import numpy as np
k = sel(k, 0, 1, 2, 3, 4, 5)
with NT():
    f = [np.float64(2.0), np.float64(0.5), np.int64(3), np.float64(0.0), np.float64(-1.0), np.float64("nan")][k]
    h = MK(); h._checkForCrossReferences()
    for d in ((0.5, 0.25, "a", 1.0), (1.5, 0.75, "b", 2.5), (NAN, 1.0, "a", 0.0)): h.fill(d)
    res = ""
    try:
        left = f * h; right = h * f; plain = h * float(f)
        if type(left) is not type(h): res = "numpy-scalar-times-aggregator-is-not-an-aggregator:" + type(left).__name__
        elif not jeq(left.toJson(), plain.toJson()): res = "numpy-scalar-on-the-left-scales-differently"
        elif not jeq(right.toJson(), plain.toJson()): res = "numpy-scalar-on-the-right-scales-differently"
        else:
            left.fill((0.5, 0.25, "a", 1.0)); plain.fill((0.5, 0.25, "a", 1.0))
            if not jeq(left.toJson(), plain.toJson()): res = "result-of-numpy-scaling-fills-differently"
    except Exception as ex:
        res = "numpy-scalar-factor-raises:" + type(ex).__name__
if res: return res
"""
    return Harness(f"C08/numpy-factor/{tree.name}", [("k", "int")], "0 <= k <= 5", body, timeout=timeout, setup=_setup(tree), tree=tree.expr,
                   bounds="3 concrete fills; factor by selector over numpy.float64 2.0/0.5/0.0/-1.0/nan and numpy.int64 3, on the left and on the right")


def harnesses(tier):
    out = [assembled()] + [numpy_factor(t) for t in cat.unit() + cat.extra_unit() + (cat.deep() if tier == "thorough" else [])]
    for t in cat.unit():
        if t.name in ("Bin", "SparselyBin", "CentrallyBin", "IrregularlyBin", "Categorize", "Stack", "Label", "Branch", "Fraction"):
            out.append(ieee_entries(t))
    return out
