"""C04 JSON serialisation is lossless, strict and yields a fully usable container."""
import re

import catalogue as cat
from gen_common import SETUP, SPECIAL_XY, bounds_text, data_params
from run import Harness

ASSUMPTIONS = [
    "strictness is the acceptance condition of json.dumps(allow_nan=False), evaluated by a walk over the (symbolic) document; "
    "the C encoder itself (toJsonString / file variants) is exercised on solver-chosen concrete states only",
    "states: empty, one symbolic record (x/y also nan/+-inf), and (h+g)*f of two one-record states",
]

C04_SETUP_HEAD = SETUP + '''
import json as _json
nx = U.named("nx", lambda d: d[0])
ny = U.named("ny", lambda d: d[1])

def strict(doc):
    """None if json.dumps(doc, allow_nan=False) would accept doc, else a description of the offending leaf."""
    if doc is None or isinstance(doc, (str, bool)):
        return None
    if isinstance(doc, int):
        return None
    if isinstance(doc, float):
        return None if math.isfinite(doc) else "non-finite float"
    if isinstance(doc, dict):
        for k, v in doc.items():
            if not isinstance(k, str):
                return "non-string key"
            r = strict(v)
            if r is not None:
                return r
        return None
    if isinstance(doc, (list, tuple)):
        for v in doc:
            r = strict(v)
            if r is not None:
                return r
        return None
    return "leaf of type " + type(doc).__name__
'''

CHECKS_FN = """
def checks(h):
    d = J(h)
    s = strict(d)
    if s is not None: return "not-strict-json:" + s
    r = Factory.fromJson(d)
    if not jeq(J(r), d): return "reload-reserialises-differently"
    if not jeq(J(r), d): return "reload-not-stable"
    z = J(h.zero())
    if not jeq(J(r.zero()), z): return "zero-of-reload-differs"
    if not jeq(J(r.copy()), d): return "copy-of-reload-differs"
    if not jeq(J(r + r), J(h + h)): return "sum-of-reloads-differs"
    if not jeq(J(r + h), J(h + h)): return "reload-plus-original-differs"
    if not jeq(J(h + r), J(h + h)): return "original-plus-reload-differs"
    if not jeq(J(r * 2.0), J(h * 2.0)): return "scaled-reload-differs"
    if not jeq(J(r + r.zero()), d): return "reload-plus-its-zero-differs"
    rr = Factory.fromJson(J(r * 2.0))
    if not jeq(J(rr), J(h * 2.0)): return "reload-of-scaled-reload-differs"
    return None
"""

C04_SETUP = C04_SETUP_HEAD + CHECKS_FN

CHECKS = """
_lab = checks(h)
if _lab is not None: return _lab
"""


def named_variant(tree):
    e = re.sub(r"\bqx\b", "nx", tree.expr)
    e = re.sub(r"\bqy\b", "ny", e)
    t = cat.Tree(tree.name + ":named", tree.expr)  # field usage computed on the original expression
    t.expr = e
    return t


def _setup(tree):
    return C04_SETUP + f"MK = lambda: {tree.expr}\n"


def empty(tree, timeout=30):
    body = """
h = fresh(MK, 1)[0]
if k == 1: h = h.zero()
if k == 2: h = h + h
if k == 3: h = h * 2.0
""" + CHECKS
    return Harness(f"C04/empty/{tree.name}", [("k", "int")], "0 <= k <= 3", body, timeout=timeout, setup=_setup(tree),
                   tree=tree.expr, bounds=bounds_text(tree, 0, state="empty: fresh | zero() | h+h | h*2 by selector"))


def empty_slot(parent, slot_name, trees, timeout=90):
    """All occupants of one child/flow slot, chosen by a symbolic selector; states fresh | zero | h+h | h*2."""
    mks = ", ".join(f"(lambda: {t.expr})" for t in trees)
    body = """
mk = MKS[c]
kk = sel(k, 0, 1, 2, 3)
with NT():   # no data in this harness: everything below is concrete, the solver only picks (c, k)
    h = mk()
    if kk == 1: h = h.zero()
    if kk == 2: h = h + h
    if kk == 3: h = h * 2.0
    _lab = checks(h)
if _lab is not None: return NAMES[c] + ":" + _lab
"""
    return Harness(f"C04/empty-slot/{parent}.{slot_name}", [("c", "int"), ("k", "int")], f"0 <= c < {len(trees)} and 0 <= k <= 3",
                   body, timeout=timeout, setup=C04_SETUP + f"MKS = [{mks}]\nNAMES = {[t.name for t in trees]!r}\n",
                   tree=f"{parent}.{slot_name} = each of {[t.name.split('=')[1] for t in trees]}",
                   bounds=f"every registered primitive as occupant of {parent}.{slot_name} (symbolic selector), named and unnamed quantities; state: fresh | zero() | h+h | h*2")


def filled(tree, special, timeout=60, fixy=False):
    p, pre, code = data_params(tree, 1, mode="real", special=special, fix_leaf_y=fixy)
    body = code + """
h = fresh(MK, 1)[0]
h.fill(data[0])
""" + CHECKS
    tag = ("s" if special else "") + ("-fixy" if fixy else "")
    return Harness(f"C04/filled/{tree.name}/{tag or 'r'}", p, " and ".join(pre), body, timeout=timeout, setup=_setup(tree),
                   tree=tree.expr, special=SPECIAL_XY if special else None,
                   bounds=bounds_text(tree, 1, data="finite reals + nan/+inf/-inf" if special else "finite reals"))


def merged(tree, timeout=90, fixy=False):
    pa, prea, codea = data_params(tree, 1, mode="real", prefix="a", fix_leaf_y=fixy)
    pb, preb, codeb = data_params(tree, 1, mode="real", prefix="b", fix_leaf_y=fixy)
    body = codea + codeb + """
g, g2 = fresh(MK, 2)
g.fill(adata[0]); g2.fill(bdata[0])
h = (g + g2) * f
""" + CHECKS
    return Harness(f"C04/merged/{tree.name}" + ("-fixy" if fixy else ""), pa + pb + [("f", "float")],
                   " and ".join(prea + preb + ["f > 0.0"]), body, timeout=timeout,
                   setup=_setup(tree), tree=tree.expr, bounds=bounds_text(tree, 2, state="(g+g2)*f, f symbolic > 0"))


def encoder(tree, timeout=40):
    """String / file entry points (C encoder): concrete records chosen by a selector."""
    body = """
import os, tempfile
h = fresh(MK, 1)[0]
recs = [(0.5, 1.5, "a", 1.0), (-1.0, NAN, "b", 2.5), (INF, -INF, None, NAN), (NAN, 0.25, "a", 1.0)]
if k > 0: h.fill(recs[k - 1])
if k > 1: h.fill(recs[0])
with NT():
    d = J(h)
    txt = _json.dumps(d, allow_nan=False)
    r1 = Factory.fromJsonString(h.toJsonString())
    fd, path = tempfile.mkstemp(suffix=".json")
    os.close(fd)
    try:
        h.toJsonFile(path)
        r2 = Factory.fromJsonFile(path)
    finally:
        os.unlink(path)
    ok1 = jeq(J(r1), d); ok2 = jeq(J(r2), d); ok3 = jeq(_json.loads(txt), d)
if not ok1: return "string-round-trip-differs"
if not ok2: return "file-round-trip-differs"
if not ok3: return "dumps-loads-differs"
"""
    return Harness(f"C04/encoder/{tree.name}", [("k", "int")], "0 <= k <= 4", body, timeout=timeout, setup=_setup(tree),
                   tree=tree.expr, bounds=bounds_text(tree, 2, data="concrete records incl. nan/inf by selector k in 0..4 (C encoder: realised)"))


VECTOR_BAGS = [
    ("Bag:N2", 'H.Bag(lambda d: (1.0 if d[0] > 0.5 else NAN, 2.5 if d[0] > 1.5 else NAN), "N2")'),
    ("Bag:N3", 'H.Bag(lambda d: (d[0] > 0.5 and 1.0 or NAN, 0.0, INF if d[0] > 1.0 else -INF), "N3")'),
    ("Bin>Bag:N2", 'H.Bin(2, 0.0, 2.0, qx, H.Bag(lambda d: (1.0 if d[0] > 0.5 else NAN, 2.5), "N2"))'),
    ("Bag:S", 'H.Bag(lambda d: "a" if d[0] > 0.5 else "", "S")'),
]


# quantity names that differ from level to level, with unnamed non-Count flows in between: a name must never travel from a
# parent (or a sibling) to a node that has none (written with nx/ny = named, qx/qy = unnamed)
MIXED_NAMES = [
    ("Bin[nx]>SparselyBin[ny].nanflow=Sum[-]", "H.Bin(2, 0.0, 2.0, nx, H.SparselyBin(1.0, ny, H.Count(), H.Sum(qx)))"),
    ("SparselyBin[nx]>Bin[ny].flows=Sum[-]", "H.SparselyBin(1.0, nx, H.Bin(2, 0.0, 2.0, ny, H.Count(), H.Sum(qx), H.Sum(qx), H.Sum(qx)))"),
    ("CentrallyBin[nx]>IrregularlyBin[ny].nanflow=Average[-]", "H.CentrallyBin([0.0, 2.0], nx, H.IrregularlyBin([0.0, 1.0], ny, H.Count(), H.Average(qx)))"),
    ("Stack[nx]>CentrallyBin[-].nanflow=Sum[ny]", "H.Stack([0.0, 1.0], nx, H.CentrallyBin([0.0, 2.0], qy, H.Count(), H.Sum(ny)))"),
    ("Fraction[nx]>SparselyBin[-].nanflow=Minimize[-]", "H.Fraction(lambda d: d[0] > 0.5, H.SparselyBin(1.0, qy, H.Count(), H.Minimize(qx)))"),
    ("IrregularlyBin[nx]>Stack[ny].nanflow=Deviate[-]", "H.IrregularlyBin([0.0, 1.0], nx, H.Stack([0.0, 1.0], ny, H.Count(), H.Deviate(qx)))"),
    ("Bin[-]>Bin[nx].nanflow=SparselyBin[-].nanflow=Sum[ny]", "H.Bin(2, 0.0, 2.0, qx, H.Bin(2, 0.0, 2.0, nx, H.Count(), H.Count(), H.Count(), H.SparselyBin(1.0, qy, H.Count(), H.Sum(ny))))"),
    ("Select[nx]>SparselyBin[ny]>Sum[-]", "H.Select(U.named(\"cut\", lambda d: d[0] > -1.0), H.SparselyBin(1.0, ny, H.Sum(qx), H.Sum(qy)))"),
]


def mixed_name_trees():
    out = []
    for n, e in MIXED_NAMES:
        t = cat.Tree(n, re.sub(r"\bnx\b", "qx", re.sub(r"\bny\b", "qy", e)))  # field usage from the unnamed spelling
        t.expr = e
        out.append(t)
    return out


def harnesses(tier):
    import gen_extra_np
    out = [gen_extra_np.dtypes(t) for t in cat.unit() + cat.deep()[:6] if t.name != "Count"]
    units = cat.unit()
    for n, e in VECTOR_BAGS:   # value ranges the catalogue's scalar Bag does not reach (vector keys with NaN/inf components)
        t = cat.Tree(n, e)
        out.append(empty(t))
        out.append(filled(t, special=False))
        out.append(merged(t))
        out.append(encoder(t))
    for t in mixed_name_trees():
        out.append(empty(t))
        out.append(filled(t, special=False, fixy=True))
        if tier == "thorough":
            out.append(merged(t, fixy=True))
    for t in units:
        for tt in (t, named_variant(t)):
            out.append(empty(tt))
            out.append(filled(tt, special=True))
        out.append(merged(t))
        out.append(encoder(named_variant(t)))
    slots = cat.slot()
    if tier == "thorough":
        slots = slots[::1]  # thorough tier is sized by wall time (see DESIGN.md 7.1)
    groups = {}
    for i, t in enumerate(slots):
        groups.setdefault(t.name.split("=")[0], []).append(named_variant(t) if i % 2 else t)
    for key, trees in groups.items():   # every primitive in every position, empty (bins:type of empty sparse containers)
        parent, slot_name = key.split(".")
        out.append(empty_slot(parent, slot_name, trees))
        out.append(empty_slot(parent, slot_name + ":alt", [named_variant(t) if ":named" not in t.name else cat.by_name(t.name.replace(":named", "")) for t in trees]))
    for i, t in enumerate(slots):
        tt = named_variant(t) if i % 2 else t
        if tier == "thorough" or i % 4 == 0:
            out.append(filled(tt, special=False, timeout=60 if tier == "quick" else 240, fixy=(tier == "quick")))
        if tier == "thorough" and i % 3 == 0:
            out.append(merged(tt, timeout=240))
            out.append(encoder(tt))
    for t in cat.deep():
        out.append(empty(t))
        out.append(filled(t, special=False, timeout=60 if tier == "quick" else 240))
    return out
