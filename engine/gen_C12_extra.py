"""further C12 harnesses: failing weight transform of a Count leaf; a bin that already exists with zero entries"""
from gen_C12 import CONT, Q_SETUP
from run import Harness

TR_SETUP = Q_SETUP + '''
def TR(w):
    if w == 2.0: raise ValueError("injected transform failure")
    if w == 3.0: return "oops"
    return w

def QF(d):
    if d[4] == 1: raise ValueError("injected")
    if d[4] == 2: return "oops"
    return d[0]
'''


def failing_transform(cont, timeout=40):
    """the leaf is a Count whose weight transform fails (raises / returns a non-number) for particular weights"""
    tmpl, kind = CONT[cont]
    q = {"num": "(lambda d: d[0])", "cat": '(lambda d: "c" if d[0] > 0.5 else "d")', "bool": "(lambda d: d[0] > -1.0)"}[kind]
    expr = tmpl.format(q=q, c="H.Count(TR)")
    body = """
h, twin = fresh(MK, 2)
recs = [((x1, 0.0, 0.0, 0.0), sel(m1, 1.0, 2.0, 3.0)), ((x2, 0.0, 0.0, 0.0), sel(m2, 1.0, 2.0, 3.0)), ((x1, 0.0, 0.0, 0.0), 1.0)]
for d, w in recs:
    before = J(h)
    try:
        h.fill(d, w)
    except Exception:
        if not jsame(J(h), before): return "failing-fill-changed-state"
        continue
    twin.fill(d, w)
if not jeq(J(h), J(twin)): return "final-state-differs-from-surviving-records"
"""
    return Harness(f"C12/fail-transform/{cont}", [("x1", "float"), ("x2", "float"), ("m1", "int"), ("m2", "int")],
                   "-2.0 <= x1 < 2.0 and -2.0 <= x2 < 2.0 and 0 <= m1 <= 2 and 0 <= m2 <= 2", body, timeout=timeout,
                   setup=TR_SETUP + f"MK = lambda: {expr}\n", tree=expr,
                   bounds="leaf = Count with a weight transform that raises for weight 2.0 and returns a string for 3.0; weights by selector; routing values symbolic in [-2,2)")


def failing_preexisting(timeout=40):
    """a category / sparse bin that exists with zero entries before the failing call (it came in through a merge with an
    immutable container) must still be there afterwards"""
    body = """
kind = sel(kind, 0, 1)
with NT():
    h = H.Categorize(lambda d: "c" if d[0] > 0.5 else "d", H.Sum(QF)) if kind == 0 else H.SparselyBin(1.0, lambda d: d[0], H.Sum(QF))
    h._checkForCrossReferences()
    empty = H.Categorize.ed(0.0, "Sum", binsAsDict={"c": H.Sum.ed(0.0, 0.0)}) if kind == 0 else H.SparselyBin.ed(1.0, 0.0, "Sum", {1: H.Sum.ed(0.0, 0.0)}, H.Count.ed(0.0), 0.0)
h.fill((x0, 0.0, 0.0, 0.0, 0))
h += empty
before = J(h)
try:
    h.fill((1.5, 0.0, 0.0, 0.0, m))
except Exception:
    if not jsame(J(h), before): return "failing-fill-changed-state"
    return "REACHED" if T else ""
"""
    return Harness("C12/fail-preexisting-empty-bin", [("kind", "int"), ("x0", "float"), ("m", "int")], "0 <= kind <= 1 and -2.0 <= x0 < 2.0 and 1 <= m <= 2",
                   body, timeout=timeout, setup=TR_SETUP, tree="Categorize / SparselyBin of Sum, after += of an immutable container holding an empty bin",
                   bounds="pre-state: one symbolic fill, then += an immutable container whose bin 'c' (index 1) has zero entries; then a failing fill into that bin")


WT_SETUP = Q_SETUP + '''
WRONG = ["oops", [3.0], (1.0, 2.0), None, {"a": 1}, b"x"]
WEIGHTS = [1.0, 2, 3, True, 2.5]
def QW(d):
    if d[4] > 0: return WRONG[d[4] - 1]
    return d[0]
'''


def failing_wrongtype(leaf, cont=None, timeout=40):
    """the kind of wrong-typed return value (str, list, tuple, None, dict, bytes) and the type of the weight (float, int,
    bool) by selector: `"oops" * 2` is a legal Python expression, so a fill that multiplies before it type-checks fails
    only after it counted the record"""
    from gen_C12 import LEAF
    expr = LEAF[leaf].format(q="QW")
    if cont:
        tmpl, kind = CONT[cont]
        q = {"num": "(lambda d: d[1])", "cat": '(lambda d: "c" if d[1] > 0.5 else "d")', "bool": "(lambda d: d[1] > -1.0)"}[kind]
        expr = tmpl.format(q=q, c=expr)
    body = """
m = sel(m, 1, 2, 3, 4, 5, 6); wk = sel(wk, 0, 1, 2, 3, 4)
h, twin = fresh(MK, 2)
ok = (x1, 0.5, 0.0, 0.0, 0)
h.fill(ok, WEIGHTS[wk]); twin.fill(ok, WEIGHTS[wk])
before = J(h)
try:
    h.fill((x1, 0.5, 0.0, 0.0, m), WEIGHTS[wk])
    return "wrong-typed-quantity-accepted"
except Exception:
    if not jsame(J(h), before): return "failing-fill-changed-state"
h.fill(ok, WEIGHTS[wk]); twin.fill(ok, WEIGHTS[wk])
if not jeq(J(h), J(twin)): return "final-state-differs-from-surviving-records"
"""
    name = (cont + ">" if cont else "") + leaf
    return Harness(f"C12/fail-wrongtype/{name}", [("x1", "float"), ("m", "int"), ("wk", "int")],
                   "-2.0 <= x1 < 2.0 and 1 <= m <= 6 and 0 <= wk <= 4", body, timeout=timeout,
                   setup=WT_SETUP + f"MK = lambda: {expr}\n", tree=expr,
                   bounds="ok fill, failing fill, ok fill; wrong value by selector over str/list/tuple/None/dict/bytes; weight by selector over 1.0, 2, 3, True, 2.5")


def harnesses(tier):
    out = [failing_transform(c) for c in CONT] + [failing_preexisting()]
    for leaf in ("Sum", "Average", "Deviate", "Minimize", "Maximize"):
        out.append(failing_wrongtype(leaf))
    for cont in (CONT if tier == "thorough" else ("Bin", "Categorize", "Select")):
        out.append(failing_wrongtype("Sum", cont))
        if tier == "thorough":
            out.append(failing_wrongtype("Average", cont))
    return out
