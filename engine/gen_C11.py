"""C11 pickling preserves content, equality and fillability (partial reach: the pre-pickle state is realised)."""
from gen_common import SETUP
from run import Harness

ASSUMPTIONS = [
    "cached quantities compare arguments with numpy.array_equal (C code): inside the harness process it is modelled on scalars as "
    "x == y (same one-function model as C17, validated there against the real numpy)",
    "pickle/marshal are C code and refuse symbolic values: the pre-pickle state is built from concrete records chosen by a symbolic "
    "selector (explored, not exhausted); the continuation after the round trip (n <= 2 fills / one merge) is fully symbolic",
]

C11_SETUP = SETUP + '''
import pickle
import numpy as _realnp

class _NPProxy:
    """real numpy, except array_equal on two scalars (model: x == y); see gen_C17"""
    def __getattr__(self, name):
        return getattr(_realnp, name)
    @staticmethod
    def array_equal(x, y):
        if isinstance(x, (bool, int, float, str)) and isinstance(y, (bool, int, float, str)):
            return x == y
        if isinstance(x, (tuple, list)) and isinstance(y, (tuple, list)):   # records: elementwise
            if len(x) != len(y):
                return False
            for a, b in zip(x, y):
                if not (a == b):
                    return False
            return True
        return _realnp.array_equal(x, y)

if SYMBOLIC:
    U.np = _NPProxy()

def fx(d): return d[0]
def fy(d): return d[1]
def fb(d): return d[0] > 0.5
def fc(d): return d[2]
nx = U.named("nx", lambda d: d[0]); ny = U.named("ny", lambda d: d[1]); nb = U.named("nb", lambda d: d[0] > 0.5); nc = U.named("nc", lambda d: d[2])
cx = U.cached(lambda d: d[0]); cy = U.cached(lambda d: d[1]); cb = U.cached(lambda d: d[0] > 0.5); cc = U.cached(lambda d: d[2])
SCALE = 1.0
OFFSET = 0.0
def gx(d): return d[0] * SCALE + OFFSET          # refers to module globals: __reduce__ ships them as refs
def gy(d): return d[1] * SCALE
def gb(d): return d[0] * SCALE > 0.5
def gc(d): return d[2]
# round 5: module globals of the defining module whose NAMES also exist in histogrammar.util (the rebuilt function must keep its own)
relativeTolerance = 3.0
absoluteTolerance = 0.25
def hx(d): return d[0] * relativeTolerance + absoluteTolerance
def hy(d): return d[1] * relativeTolerance
def hb(d): return d[0] * relativeTolerance > 0.5
def hc(d): return d[2]
def mkidx(k):
    return lambda d, k=k: d[k]                    # one code object, different defaults (functions built by a factory / in a loop)
def mkgt(t, k=0):
    return lambda d, t=t, k=k: d[k] > t
class Rec:
    def __init__(self, x, y, c): self.x, self.y, self.cat = x, y, c
'''

KINDS = {
    # kind: (X, Y, B, C quantity expressions, record constructor)
    "lambda": ("qx", "qy", "qb", "qc", "lambda x, y, c: (x, y, c, 0.0)"),
    "def": ("fx", "fy", "fb", "fc", "lambda x, y, c: (x, y, c, 0.0)"),
    "globals": ("gx", "gy", "gb", "gc", "lambda x, y, c: (x, y, c, 0.0)"),
    "globals-clash": ("hx", "hy", "hb", "hc", "lambda x, y, c: (x, y, c, 0.0)"),
    "factory": ("mkidx(0)", "mkidx(1)", "mkgt(0.5)", "mkidx(2)", "lambda x, y, c: (x, y, c, 0.0)"),
    "defaults": ("(lambda d, k=0: d[k])", "(lambda d, k=1: d[k])", "(lambda d, t=0.5: d[0] > t)", "(lambda d, k=2: d[k])", "lambda x, y, c: (x, y, c, 0.0)"),
    "named": ("nx", "ny", "nb", "nc", "lambda x, y, c: (x, y, c, 0.0)"),
    # cached functions hold state (last arguments): they are created per tree, never shared between engine paths
    "cached": ("U.cached(lambda d: d[0])", "U.cached(lambda d: d[1])", "U.cached(lambda d: d[0] > 0.5)", "U.cached(lambda d: d[2])", "lambda x, y, c: (x, y, c, 0.0)"),
    # the category field is called "cat": CrossHair's eval() stand-in resolves free names in the caller's locals first,
    # and UserFcn's evaluator has a local called "c" (engine artefact, not library behaviour)
    "string-dict": ('"x"', '"y"', '"x > 0.5"', '"cat"', "lambda x, y, c: dict(x=x, y=y, cat=c)"),
    "string-attr": ('"x"', '"y"', '"x > 0.5"', '"cat"', "lambda x, y, c: Rec(x, y, c)"),
}
SHAPES = {
    "Sum": "H.Sum({X})",
    "Deviate": "H.Deviate({X})",
    "Bin>Average": "H.Bin(2, 0.0, 2.0, {X}, H.Average({Y}))",
    "Select>Bin": "H.Select({B}, H.Bin(2, 0.0, 2.0, {X}))",
    "Categorize>Sum": "H.Categorize({C}, H.Sum({X}))",
    "SparselyBin>Minimize": "H.SparselyBin(1.0, {X}, H.Minimize({Y}))",
    "Label>Stack": "H.Label(a=H.Stack([0.0, 1.0], {X}), b=H.Stack([0.5], {Y}))",
    "Branch": "H.Branch(H.Count(), H.Maximize({X}), H.Bag({C}, 'S'))",
    "Fraction>IrregularlyBin": "H.Fraction({B}, H.IrregularlyBin([0.0, 1.0], {X}))",
    "CentrallyBin>Count": "H.CentrallyBin([0.0, 2.0], {X})",
    "Select>Label": "H.Select({B}, H.Label(a=H.Sum({X}), b=H.Sum({Y})))",
    "Bin.nanflow=Branch": "H.Bin(2, 0.0, 2.0, {X}, H.Count(), H.Count(), H.Count(), H.Branch(H.Count(), H.Sum({Y})))",
    "Fraction>Index": "H.Fraction({B}, H.Index(H.Sum({X}), H.Sum({Y})))",
    "Categorize>UntypedLabel": "H.Categorize({C}, H.UntypedLabel(s=H.Sum({X}), n=H.Count()))",
    "SparselyBin>Categorize": "H.SparselyBin(1.0, {X}, H.Categorize({C}, H.Count()))",
}


def roundtrip(shape, kind, timeout=60):
    X, Y, Bq, C, rec = KINDS[kind]
    expr = SHAPES[shape].format(X=X, Y=Y, B=Bq, C=C)
    body = f"""
R = {rec}
k = sel(k, 0, 1, 2, 3)
with NT():
    pre = [R(0.5, 1.5, "a"), R(-1.0, 0.25, "b"), R(1.75, -0.5, "a")]
    h = MK(); g = MK()
    if k >= 1: h.fill(pre[0])
    if k >= 2: h.fill(pre[1]); g.fill(pre[2]); h = h + g
    if k == 3: h = Factory.fromJson(J(h))
    before = J(h)
    blob = pickle.dumps(h)
    c = pickle.loads(blob)
    c2 = pickle.loads(pickle.dumps(c))
    same_json = jeq(J(c), before); same_json2 = jeq(J(c2), before); unchanged = jeq(J(h), before)
    eq1 = (c == h); eq2 = (h == c); eq3 = (c2 == h)
if not unchanged: return "pickling-changed-the-original"
if not same_json: return "clone-content-differs"
if not same_json2: return "second-generation-clone-differs"
if not (eq1 and eq2 and eq3): return "clone-not-equal-to-original"
d1 = R(x1, y1, sel(c1, "a", "b")); d2 = R(x2, y2, sel(c2, "a", "b"))
if k < 3:
    h.fill(d1); c.fill(d1)
    if not jeq(J(c), J(h)): return "clone-and-original-diverge-after-one-fill"
    h.fill(d2); c.fill(d2)
    if not jeq(J(c), J(h)): return "clone-and-original-diverge-after-two-fills"
    if not jeq(J(c + c2), J(h + c2)): return "merge-with-clone-differs"
else:
    if not jeq(J(c + c), J(h + h)): return "merge-of-reloaded-clones-differs"
    if not jeq(J(c * 2.0), J(h * 2.0)): return "scaled-reloaded-clone-differs"
"""
    return Harness(
        f"C11/roundtrip/{shape}/{kind}", [("k", "int"), ("x1", "float"), ("y1", "float"), ("c1", "int"), ("x2", "float"), ("y2", "float"), ("c2", "int")],
        "0 <= k <= 3 and -2.0 <= x1 < 2.0 and -2.0 <= x2 < 2.0 and 0 <= c1 <= 1 and 0 <= c2 <= 1", body, timeout=timeout,
        setup=C11_SETUP + f"MK = lambda: {expr}\n", tree=expr,
        bounds=f"shape {shape}; quantity kind {kind}; pre-pickle state by selector k: fresh | 1 record | merged | reloaded from JSON (concrete records); "
        "continuation: two symbolic records (x in [-2,2), y real, category by selector) filled into clone and original, then a merge",
    )


def vectorised(shape, kind, timeout=90):
    """after the round trip, clone and original receive the same batch through fill.numpy (numpy model of C03)"""
    X, Y, Bq, C, rec = KINDS[kind]
    expr = SHAPES[shape].format(X=X, Y=Y, B=Bq, C=C)
    body = f"""
k = sel(k, 0, 1)
with NT():
    h = MK()
    if k >= 1: h.fill((0.5, 1.5, "a", 0.0))
    c = pickle.loads(pickle.dumps(h))
data = [(x1, y1, sel(c1, "a", "b"), 0.0), (x2, y2, sel(c2, "a", "b"), 0.0)]
cols = columns(data)
with NPM():
    h.fill.numpy(cols, wsc)
    c.fill.numpy(cols, wsc)
if not jeq(J(c), J(h)): return "clone-and-original-diverge-after-vectorised-fill"
"""
    import gen_C03
    return Harness(
        f"C11/vectorised/{{shape}}/{{kind}}".format(shape=shape, kind=kind), [("k", "int"), ("x1", "float"), ("y1", "float"), ("c1", "int"), ("x2", "float"), ("y2", "float"), ("c2", "int"), ("wsc", "float")],
        "0 <= k <= 1 and -2.0 <= x1 < 2.0 and -2.0 <= x2 < 2.0 and 0 <= c1 <= 1 and 0 <= c2 <= 1 and wsc >= 0.0", body, timeout=timeout,
        setup=gen_C03.C03_SETUP + C11_SETUP.replace(SETUP, "") + f"MK = lambda: {{expr}}\n".format(expr=expr), tree=expr,
        bounds=f"shape {{shape}}; quantity kind {{kind}}; pre-pickle state fresh | 1 record; continuation: one symbolic 2-row batch through fill.numpy with a symbolic scalar weight".format(shape=shape, kind=kind),
    )


def harnesses(tier):
    import gen_extra_np
    out = [gen_extra_np.clone_probes()]
    for shape in SHAPES:
        newshape = shape in ("Select>Label", "Bin.nanflow=Branch", "Fraction>Index", "Categorize>UntypedLabel", "SparselyBin>Categorize")
        kinds = list(KINDS) if tier == "thorough" or shape in ("Sum", "Bin>Average", "Select>Bin", "Categorize>Sum") else (["lambda", "named"] if newshape else ["lambda", "string-dict", "cached", "factory"])
        for kind in kinds:
            out.append(roundtrip(shape, kind, timeout=60 if tier == "quick" else 240))
    for shape in list(SHAPES)[:10] if tier == "quick" else SHAPES:
        for kind in (["lambda", "named"] if tier == "quick" else ["lambda", "def", "named", "globals"]):
            out.append(vectorised(shape, kind, timeout=90 if tier == "quick" else 240))
    return out
