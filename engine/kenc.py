"""E2 kernel encoder: Python AST of histogrammar's routing kernels -> SMT-LIB2 (QF_FP, Float64, RNE).

The method bodies are parsed from the *current* /repo sources on every run and evaluated symbolically over the
small subset they use.  Python floats are IEEE binary64 with round-to-nearest-even, exactly what QF_FP models.
An unsupported node raises Unsupported -> the obligation is reported UNKNOWN, never "held".

Symbolic evaluation returns *guarded outcomes*: lists of (guard, value) with guard an SMT Bool term (or True),
value a concrete python object or a symbolic term (FP / B).  Statement execution additionally records
`events`: calls of ``<target>.fill(...)`` (the routing decision) and subscripts ``self.values[idx]``.
"""
import ast
import inspect
import math
import struct
import subprocess
import textwrap
import time
import types


class Unsupported(Exception):
    pass


# ----------------------------------------------------------------------------- terms
class FP:
    """symbolic Float64 term; `integral` marks results of floor()/int()"""

    def __init__(self, t, integral=False):
        self.t = t
        self.integral = integral


class B:
    def __init__(self, t):
        self.t = t


def lit(x):
    """SMT-LIB literal of a python float (bit pattern, so NaN payload/sign of zero survive)"""
    x = float(x)
    if x != x:
        return "(_ NaN 11 53)"
    bits = struct.unpack(">Q", struct.pack(">d", x))[0]
    s = bits >> 63
    e = (bits >> 52) & 0x7FF
    m = bits & ((1 << 52) - 1)
    return "(fp #b%d #b%s #b%s)" % (s, format(e, "011b"), format(m, "052b"))


def fpt(v):
    if isinstance(v, FP):
        return v.t
    if isinstance(v, bool):
        return lit(1.0 if v else 0.0)
    if isinstance(v, int):
        if float(v) != v or abs(v) > 2**53:
            raise Unsupported("int constant %r not exactly representable" % v)
        return lit(float(v))
    if isinstance(v, float):
        return lit(v)
    raise Unsupported("not a number: %r" % (v,))


def bt(v):
    if isinstance(v, B):
        return v.t
    if v is True:
        return "true"
    if v is False:
        return "false"
    raise Unsupported("not a bool: %r" % (v,))


def AND(*xs):
    xs = [x for x in xs if x is not True]
    if any(x is False for x in xs):
        return False
    if not xs:
        return True
    if len(xs) == 1:
        return xs[0]
    return B("(and %s)" % " ".join(bt(x) for x in xs))


def OR(*xs):
    xs = [x for x in xs if x is not False]
    if any(x is True for x in xs):
        return True
    if not xs:
        return False
    if len(xs) == 1:
        return xs[0]
    return B("(or %s)" % " ".join(bt(x) for x in xs))


def NOT(x):
    if x is True:
        return False
    if x is False:
        return True
    return B("(not %s)" % bt(x))


def is_sym(v):
    return isinstance(v, (FP, B))


def _float_bound(c, op):
    """exact python semantics of  (float x) <op> (int c)  when c is not a float: move c to the neighbouring float"""
    f = float(c)  # rounds to nearest
    from fractions import Fraction

    if Fraction(f) == Fraction(c):
        return f, op
    lo = f if Fraction(f) < c else math.nextafter(f, -math.inf)  # largest float < c
    hi = math.nextafter(lo, math.inf)  # smallest float > c
    # x <= c  <=> x <= lo ; x < c <=> x <= lo ; x >= c <=> x >= hi ; x > c <=> x >= hi
    return {"<=": (lo, "<="), "<": (lo, "<="), ">=": (hi, ">="), ">": (hi, ">="), "==": (None, "false"), "!=": (None, "true")}[op]


CMP = {"<": "fp.lt", "<=": "fp.leq", ">": "fp.gt", ">=": "fp.geq", "==": "fp.eq"}
FLIP = {"<": ">", "<=": ">=", ">": "<", ">=": "<=", "==": "==", "!=": "!="}


def compare(a, op, b):
    if not is_sym(a) and not is_sym(b):
        return {"<": a < b, "<=": a <= b, ">": a > b, ">=": a >= b, "==": a == b, "!=": a != b}[op]
    if isinstance(a, B) or isinstance(b, B):
        if op == "==":
            return B("(= %s %s)" % (bt(a), bt(b)))
        raise Unsupported("ordering on bools")
    # python compares float with int exactly
    if isinstance(b, int) and not isinstance(b, bool) and (float(b) != b or abs(b) > 2**53):
        c, op2 = _float_bound(b, op)
        if op2 in ("true", "false"):
            return op2 == "true"
        b, op = c, op2
    if isinstance(a, int) and not isinstance(a, bool) and (float(a) != a or abs(a) > 2**53):
        return compare(b, FLIP[op], a)
    if op == "!=":
        return B("(not (fp.eq %s %s))" % (fpt(a), fpt(b)))
    return B("(%s %s %s)" % (CMP[op], fpt(a), fpt(b)))


def arith(a, op, b):
    if not is_sym(a) and not is_sym(b):
        try:
            return {"+": lambda: a + b, "-": lambda: a - b, "*": lambda: a * b, "/": lambda: a / b}[op]()
        except ZeroDivisionError:
            raise Unsupported("concrete division by zero")
    f = {"+": "fp.add", "-": "fp.sub", "*": "fp.mul", "/": "fp.div"}[op]
    return FP("(%s RNE %s %s)" % (f, fpt(a), fpt(b)))


# ----------------------------------------------------------------------------- evaluator
class Outcome:
    def __init__(self, guard, kind, value=None):
        self.guard, self.kind, self.value = guard, kind, value  # kind: 'return' | 'raise' | 'fall'


class Kernel:
    """symbolic interpreter for the methods of one (stubbed) aggregator instance"""

    def __init__(self, cls, selfobj, symbols):
        self.cls = cls
        self.selfobj = selfobj  # concrete stand-in holding the structural parameters
        self.symbols = symbols  # name -> FP
        self.events = []  # (guard, target-description, index-value-or-None)
        self.raises = []  # (guard, exception-name)
        self.methods = {}
        src = textwrap.dedent(inspect.getsource(cls))
        tree = ast.parse(src)
        for node in tree.body[0].body:
            if isinstance(node, ast.FunctionDef):
                self.methods[node.name] = node
        mod = inspect.getmodule(cls)
        self.globals = dict(mod.__dict__)
        self.functions = sorted(self.methods)

    # -- expressions: return list of (guard, value)
    def ev(self, node, env, guard=True):
        # the user's quantity function is the symbolic input
        if isinstance(node, ast.Call) and isinstance(node.func, ast.Attribute) and node.func.attr == "quantity" and "x" in self.symbols:
            return [(guard, self.symbols["x"])]
        # concrete shortcut
        names = {n.id for n in ast.walk(node) if isinstance(n, ast.Name)}
        if not any(is_sym(env.get(n)) for n in names) and not self._calls_self_method(node):
            try:
                code = compile(ast.Expression(node), "<kernel>", "eval")
                ns = dict(self.globals)
                ns.update({k: v for k, v in env.items()})
                return [(guard, eval(code, ns))]
            except Exception as e:  # noqa: BLE001
                raise Unsupported("concrete evaluation of %s failed: %r" % (ast.dump(node)[:80], e))
        m = getattr(self, "ev_" + type(node).__name__, None)
        if m is None:
            raise Unsupported("expression node %s" % type(node).__name__)
        return self.merge_bool(m(node, env, guard), guard)

    @staticmethod
    def merge_bool(outs, guard):
        """several guarded boolean outcomes -> one boolean term (keeps the case split out of the caller's paths)"""
        if len(outs) > 1 and all(isinstance(v, (B, bool)) for _, v in outs):
            return [(guard, OR(*[AND(g, v) for g, v in outs]))]
        return outs

    def _calls_self_method(self, node):
        for n in ast.walk(node):
            if isinstance(n, ast.Call) and isinstance(n.func, ast.Attribute) and isinstance(n.func.value, ast.Name) and n.func.value.id == "self":
                if n.func.attr in self.methods:
                    return True
        return False

    def ev_Name(self, node, env, guard):
        if node.id in env:
            return [(guard, env[node.id])]
        raise Unsupported("unbound name %s" % node.id)

    def ev_Constant(self, node, env, guard):
        return [(guard, node.value)]

    def ev_UnaryOp(self, node, env, guard):
        out = []
        for g, v in self.ev(node.operand, env, guard):
            if isinstance(node.op, ast.Not):
                out.append((g, NOT(self.truth(v))))
            elif isinstance(node.op, ast.USub):
                out.append((g, FP("(fp.neg %s)" % fpt(v)) if is_sym(v) else -v))
            else:
                raise Unsupported("unary op")
        return out

    def truth(self, v):
        if isinstance(v, B) or isinstance(v, bool):
            return v
        if isinstance(v, FP):
            return B("(not (fp.isZero %s))" % v.t)
        return bool(v)

    def ev_BoolOp(self, node, env, guard):
        # short circuit: evaluate left to right under accumulated guards
        isand = isinstance(node.op, ast.And)
        results = []
        pending = [(guard, None)]
        for i, sub in enumerate(node.values):
            nxt = []
            for g, _ in pending:
                for g2, v in self.ev(sub, env, g):
                    t = self.truth(v)
                    last = i == len(node.values) - 1
                    if last:
                        results.append((g2, t))
                    elif isand:
                        results.append((AND(g2, NOT(t)), False))
                        if AND(g2, t) is not False:
                            nxt.append((AND(g2, t), None))
                    else:
                        results.append((AND(g2, t), True))
                        if AND(g2, NOT(t)) is not False:
                            nxt.append((AND(g2, NOT(t)), None))
            pending = nxt
        return [(g, v) for g, v in results if g is not False]

    def ev_Compare(self, node, env, guard):
        if len(node.ops) != 1:
            raise Unsupported("chained comparison")
        opname = {ast.Lt: "<", ast.LtE: "<=", ast.Gt: ">", ast.GtE: ">=", ast.Eq: "==", ast.NotEq: "!="}.get(type(node.ops[0]))
        if opname is None:
            raise Unsupported("comparison op %s" % type(node.ops[0]).__name__)
        out = []
        for g, a in self.ev(node.left, env, guard):
            for g2, b in self.ev(node.comparators[0], env, g):
                out.append((g2, compare(a, opname, b)))
        return out

    def ev_BinOp(self, node, env, guard):
        opname = {ast.Add: "+", ast.Sub: "-", ast.Mult: "*", ast.Div: "/"}.get(type(node.op))
        if opname is None:
            raise Unsupported("binary op %s" % type(node.op).__name__)
        out = []
        for g, a in self.ev(node.left, env, guard):
            for g2, b in self.ev(node.right, env, g):
                out.append((g2, arith(a, opname, b)))
        return out

    def ev_IfExp(self, node, env, guard):
        out = []
        for g, t in self.ev(node.test, env, guard):
            t = self.truth(t)
            if AND(g, t) is not False:
                out += self.ev(node.body, env, AND(g, t))
            if AND(g, NOT(t)) is not False:
                out += self.ev(node.orelse, env, AND(g, NOT(t)))
        return out

    def ev_Attribute(self, node, env, guard):
        if isinstance(node.value, ast.Name) and node.value.id == "self":
            prop = inspect.getattr_static(self.cls, node.attr, None)
            if isinstance(prop, property) and node.attr in ("num",):
                return [(guard, getattr(self.selfobj, node.attr))]
            return [(guard, getattr(self.selfobj, node.attr))]
        raise Unsupported("attribute %s" % ast.dump(node)[:60])

    def ev_Subscript(self, node, env, guard):
        out = []
        for g, base in self.ev(node.value, env, guard):
            for g2, idx in self.ev(node.slice, env, g):
                if is_sym(idx):
                    self.events.append((g2, "subscript:" + ast.unparse(node.value), idx, len(base)))
                    out.append((g2, ("ELEMENT", ast.unparse(node.value), idx)))
                else:
                    out.append((g2, base[idx]))
        return out

    def ev_Call(self, node, env, guard):
        f = node.func
        args = node.args
        # self.method(...)
        if isinstance(f, ast.Attribute) and isinstance(f.value, ast.Name) and f.value.id == "self" and f.attr in self.methods:
            return self.call_method(f.attr, args, env, guard, node.keywords)
        name = ast.unparse(f)
        if name in ("math.isnan", "math.isinf", "math.floor", "int", "float", "abs", "np.isnan"):
            out = []
            for g, v in self.ev(args[0], env, guard):
                if not is_sym(v):
                    out.append((g, eval(name, {"math": math, "np": self.globals.get("np")})(v)))
                elif name in ("math.isnan", "np.isnan"):
                    out.append((g, B("(fp.isNaN %s)" % v.t)))
                elif name == "math.isinf":
                    out.append((g, B("(fp.isInfinite %s)" % v.t)))
                elif name == "math.floor":
                    # floor(nan) -> ValueError, floor(+-inf) -> OverflowError
                    bad = B("(or (fp.isNaN %s) (fp.isInfinite %s))" % (v.t, v.t))
                    self.raises.append((AND(g, bad), "floor-of-nonfinite"))
                    out.append((AND(g, NOT(bad)), FP("(fp.roundToIntegral RTN %s)" % v.t, integral=True)))
                elif name == "int":
                    if v.integral:
                        out.append((g, v))
                    else:
                        bad = B("(or (fp.isNaN %s) (fp.isInfinite %s))" % (v.t, v.t))
                        self.raises.append((AND(g, bad), "int-of-nonfinite"))
                        out.append((AND(g, NOT(bad)), FP("(fp.roundToIntegral RTZ %s)" % v.t, integral=True)))
                elif name == "float":
                    out.append((g, v))
                elif name == "abs":
                    out.append((g, FP("(fp.abs %s)" % v.t, v.integral)))
            return out
        if name in ("min", "max") and len(args) == 2:
            # python: min(a, b) is b if b < a else a; max(a, b) is b if b > a else a
            out = []
            for g, a in self.ev(args[0], env, guard):
                for g2, b_ in self.ev(args[1], env, g):
                    if not is_sym(a) and not is_sym(b_):
                        out.append((g2, min(a, b_) if name == "min" else max(a, b_)))
                        continue
                    pick_b = compare(b_, "<" if name == "min" else ">", a)
                    integral = all(isinstance(v, int) or (isinstance(v, FP) and v.integral) for v in (a, b_))
                    wrap = lambda v: FP(fpt(v), integral)  # noqa: E731
                    if AND(g2, pick_b) is not False:
                        out.append((AND(g2, pick_b), wrap(b_)))
                    if AND(g2, NOT(pick_b)) is not False:
                        out.append((AND(g2, NOT(pick_b)), wrap(a)))
            return out
        if name in ("isinstance",):
            return [(guard, True)]
        if name in ("len", "xrange", "range"):
            vals = self.ev(args[0], env, guard)
            return [(g, {"len": len, "xrange": range, "range": range}[name](v)) for g, v in vals]
        raise Unsupported("call %s" % name)

    def call_method(self, mname, argnodes, env, guard, keywords=()):
        fn = self.methods[mname]
        params = [a.arg for a in fn.args.args][1:]
        defaults = fn.args.defaults
        out = []
        # evaluate arguments (cross product of outcomes)
        combos = [(guard, [])]
        for a in argnodes:
            nxt = []
            for g, acc in combos:
                for g2, v in self.ev(a, env, g):
                    nxt.append((g2, acc + [v]))
            combos = nxt
        for g, vals in combos:
            local = {"self": self.selfobj}
            for i, p in enumerate(params):
                if i < len(vals):
                    local[p] = vals[i]
                else:
                    d = defaults[i - (len(params) - len(defaults))]
                    local[p] = ast.literal_eval(d)
            for kw in keywords:
                (gk, kv), = self.ev(kw.value, env, g)
                local[kw.arg] = kv
            for oc in self.block(fn.body, local, g):
                if oc.kind == "return":
                    out.append((oc.guard, oc.value))
                elif oc.kind == "fall":
                    out.append((oc.guard, None))
        return self.merge_bool(out, guard)

    # -- statements
    def block(self, stmts, env, guard):
        """returns list of Outcome; env is mutated along the fall-through path (copied at branches)"""
        live = [(guard, env)]
        done = []
        for st in stmts:
            nxt = []
            for g, e in live:
                for oc, e2 in self.stmt(st, e, g):
                    if oc.kind == "fall":
                        nxt.append((oc.guard, e2))
                    else:
                        done.append(oc)
            live = nxt
        return done + [Outcome(g, "fall") for g, _ in live]

    def stmt(self, st, env, guard):
        if isinstance(st, ast.Expr):
            if isinstance(st.value, ast.Constant):
                return [(Outcome(guard, "fall"), env)]
            if isinstance(st.value, ast.Call):
                f = st.value.func
                if isinstance(f, ast.Attribute) and f.attr == "fill":
                    # routing event: <target>.fill(datum, weight)
                    res = []
                    for g, tv in self.ev_target(f.value, env, guard):
                        self.events.append((g, "fill:" + tv, None, None))
                        res.append((Outcome(g, "fall"), env))
                    return res
                if isinstance(f, ast.Attribute) and f.attr == "_checkForCrossReferences":
                    return [(Outcome(guard, "fall"), env)]
            raise Unsupported("expression statement %s" % ast.unparse(st)[:60])
        if isinstance(st, ast.Return):
            if st.value is None:
                return [(Outcome(guard, "return", None), env)]
            return [(Outcome(g, "return", v), env) for g, v in self.ev(st.value, env, guard)]
        if isinstance(st, ast.Assign):
            if len(st.targets) != 1:
                raise Unsupported("multi-assign")
            res = []
            for g, v in self.ev(st.value, env, guard):
                e2 = dict(env)
                self.bind(st.targets[0], v, e2)
                res.append((Outcome(g, "fall"), e2))
            return res
        if isinstance(st, ast.AugAssign):
            # bookkeeping updates (self.entries += weight) do not affect routing
            if isinstance(st.target, ast.Attribute):
                return [(Outcome(guard, "fall"), env)]
            raise Unsupported("augassign")
        if isinstance(st, ast.If):
            res = []
            for g, t in self.ev(st.test, env, guard):
                t = self.truth(t)
                gt, gf = AND(g, t), AND(g, NOT(t))
                if gt is not False:
                    for oc in self.block(st.body, dict(env), gt):
                        res.append((oc, env))
                if gf is not False:
                    if st.orelse:
                        for oc in self.block(st.orelse, dict(env), gf):
                            res.append((oc, env))
                    else:
                        res.append((Outcome(gf, "fall"), env))
            return res
        if isinstance(st, ast.Raise):
            self.raises.append((guard, "raise:" + ast.unparse(st)[:60]))
            return [(Outcome(guard, "raise"), env)]
        if isinstance(st, ast.For):
            (gi, it), = self.ev(st.iter, env, guard)
            live = [(gi, dict(env))]
            res = []
            for item in list(it):
                nxt = []
                for g, e in live:
                    e2 = dict(e)
                    self.bind(st.target, item, e2)
                    for oc in self.block_loop(st.body, e2, g):
                        if oc[0] == "continue":
                            nxt.append((oc[1], oc[2]))
                        elif oc[0] == "break":
                            res.append((Outcome(oc[1], "fall"), env))
                        else:
                            res.append((oc[1], env))
                live = nxt
            for g, e in live:
                res.append((Outcome(g, "fall"), env))
            return res
        if isinstance(st, ast.Break):
            return [(Outcome(guard, "break"), env)]
        raise Unsupported("statement %s" % type(st).__name__)

    def block_loop(self, stmts, env, guard):
        out = []
        for oc in self.block(stmts, env, guard):
            if oc.kind == "fall":
                out.append(("continue", oc.guard, env))
            elif oc.kind == "break":
                out.append(("break", oc.guard))
            else:
                out.append(("done", oc))
        return out

    def bind(self, target, value, env):
        if isinstance(target, ast.Name):
            env[target.id] = value
        elif isinstance(target, ast.Tuple):
            vals = list(value)
            if len(vals) != len(target.elts):
                raise Unsupported("unpack arity")
            for t, v in zip(target.elts, vals):
                self.bind(t, v, env)
        else:
            raise Unsupported("assignment target")

    def ev_target(self, node, env, guard):
        """describe the object whose .fill is called"""
        if isinstance(node, ast.Attribute) and isinstance(node.value, ast.Name) and node.value.id == "self":
            return [(guard, "self." + node.attr)]
        if isinstance(node, ast.Name):
            v = env.get(node.id)
            return [(guard, str(v))]
        if isinstance(node, ast.Subscript):
            out = []
            for g, v in self.ev(node, env, guard):
                if isinstance(v, tuple) and v and v[0] == "ELEMENT":
                    out.append((g, "%s[idx]" % v[1]))
                else:
                    out.append((g, str(v)))
            return out
        raise Unsupported("fill target %s" % ast.unparse(node))


# ----------------------------------------------------------------------------- solving
def smt_script(decls, assertions, logic="QF_FP"):
    lines = ["(set-logic %s)" % logic]
    for n in decls:
        lines.append("(declare-const %s (_ FloatingPoint 11 53))" % n)
    for a in assertions:
        lines.append("(assert %s)" % a)
    lines.append("(check-sat)")
    lines.append("(get-model)")
    return "\n".join(lines) + "\n"


def _parse_model(out, names):
    """extract float values of the declared constants from a z3 / cvc5 model"""
    import re

    vals = {}
    for n in names:
        m = re.search(r"\(define-fun %s \(\) \(_ FloatingPoint 11 53\)\s*(.*?)\)\s*(?=\(define-fun|\)\s*$|$)" % re.escape(n), out, re.S)
        if not m:
            continue
        body = m.group(1).strip()
        if "NaN" in body:
            vals[n] = float("nan")
        elif "+oo" in body:
            vals[n] = float("inf")
        elif "-oo" in body:
            vals[n] = float("-inf")
        elif "+zero" in body:
            vals[n] = 0.0
        elif "-zero" in body:
            vals[n] = -0.0
        else:
            mm = re.search(r"\(fp\s+(#[bx][0-9a-fA-F]+)\s+(#[bx][0-9a-fA-F]+)\s+(#[bx][0-9a-fA-F]+)", body)
            if mm:
                def bits(s, width):
                    return int(s[2:], 2 if s[1] == "b" else 16), width
                s = int(mm.group(1)[2:], 2 if mm.group(1)[1] == "b" else 16)
                e = int(mm.group(2)[2:], 2 if mm.group(2)[1] == "b" else 16)
                f = int(mm.group(3)[2:], 2 if mm.group(3)[1] == "b" else 16)
                vals[n] = struct.unpack(">d", struct.pack(">Q", (s << 63) | (e << 52) | f))[0]
    return vals


def solve(script, path, names, tlimit=60, solvers=("cvc5", "z3")):
    """run the solvers on the same file; returns dict(status, model, per_solver, time_s). Any '(error' line or a
    disagreement between solvers makes the result 'unknown'."""
    with open(path, "w") as f:
        f.write(script)
    per = {}
    t0 = time.time()
    for s in solvers:
        cmd = ["cvc5", "--produce-models", "--tlimit=%d" % (tlimit * 1000), path] if s == "cvc5" else ["z3", "-T:%d" % tlimit, path]
        t1 = time.time()
        try:
            p = subprocess.run(cmd, capture_output=True, text=True, timeout=tlimit + 20)
            out = p.stdout + p.stderr
        except subprocess.TimeoutExpired:
            out = "timeout"
        first = out.strip().split("\n")[0].strip() if out.strip() else "empty"
        if "(error" in out and first not in ("unsat",):
            # an error after 'unsat' is only get-model complaining; anything else is inconclusive
            st = "unknown"
        elif first in ("sat", "unsat"):
            st = first
        else:
            st = "unknown"
        per[s] = {"status": st, "time_s": round(time.time() - t1, 2), "model": _parse_model(out, names) if st == "sat" else {}}
    sts = {v["status"] for v in per.values()} - {"unknown"}
    if len(sts) == 1:
        status = sts.pop()
    elif len(sts) == 0:
        status = "unknown"
    else:
        status = "disagree"
    model = {}
    for v in per.values():
        if v["status"] == "sat" and v["model"]:
            model = v["model"]
            break
    return {"status": status, "model": model, "per_solver": {k: (v["status"], v["time_s"]) for k, v in per.items()}, "time_s": round(time.time() - t0, 2)}
