"""C08 scaling by a factor equals refilling with every weight multiplied by it."""
import catalogue as cat
from gen_common import SETUP, SPECIAL_XY, bounds_text, data_params
from run import Harness

ASSUMPTIONS = [
    "factor f is a symbolic real > 0 (refill/laws) or a symbolic value with not(f > 0) (gate); int factors 1 and 2 are concrete",
    "real mode: products f*w*q are exact polynomials, so 'up to rounding' becomes exact equality",
]


def _setup(tree):
    return SETUP + f"MK = lambda: {tree.expr}\n"


def refill(tree, n, weights=False, timeout=60, fixy=False, special=False):
    p, pre, code = data_params(tree, n, weights=weights, mode="real", fix_leaf_y=fixy, special=special)
    pe, pree, codee = data_params(tree, 1, mode="real", prefix="e", fix_leaf_y=fixy)
    body = code + codee + """
a, r = fresh(MK, 2)
for d, w in zip(data, ws):
    a.fill(d, w)
    r.fill(d, w * f)
ja = J(a)
s = a * f
jr = J(r)
if not jeq(J(s), jr): return "scaled-differs-from-refill"
if not jeq(J(f * a), jr): return "rmul-differs-from-refill"
# the scaled result stays a first-class aggregator
s.fill(edata[0])
r.fill(edata[0])
if not jeq(J(s), J(r)): return "fill-after-scaling-differs"
t = s + a
u = r + a
if not jeq(J(t), J(u)): return "merge-after-scaling-differs"
if not jeq(J(a), ja): return "operand-changed-by-continuation-on-the-scaled-result"
s2 = a * f
if not jeq(J(s2), J(a * f)): return "second-scaled-copy-differs"
"""
    tag = ("w" if weights else "") + ("-fixy" if fixy else "") + ("-s" if special else "")
    return Harness(
        f"C08/refill/{tree.name}/n{n}{tag}", p + pe + [("f", "float")], " and ".join(pre + pree + ["f > 0.0"]), body,
        timeout=timeout, setup=_setup(tree), tree=tree.expr, special=SPECIAL_XY if special else None,
        bounds=bounds_text(tree, n + 1, factor="symbolic real > 0", weights="symbolic > 0" if weights else "1.0", data="finite reals + nan/+-inf" if special else "finite reals"),
    )


def laws(tree, timeout=60, fixy=False):
    pa, prea, codea = data_params(tree, 1, mode="real", prefix="a", fix_leaf_y=fixy)
    pb, preb, codeb = data_params(tree, 1, mode="real", prefix="b", fix_leaf_y=fixy)
    body = codea + codeb + """
a, b = fresh(MK, 2)
a.fill(adata[0]); b.fill(bdata[0])
ja = J(a)
if not jeq(J(a * 1), ja): return "times-int-1"
if not jeq(J(a * 1.0), ja): return "times-float-1"
if not jeq(J(a * 2), J(a + a)): return "times-2-vs-self-plus-self"
if not jeq(J((a * f) * g), J(a * (f * g))): return "not-multiplicative"
if not jeq(J((a + b) * f), J(a * f + b * f)): return "not-distributive"
if not jeq(J(a), ja): return "operand-changed"
"""
    return Harness(
        f"C08/laws/{tree.name}" + ("-fixy" if fixy else ""), pa + pb + [("f", "float"), ("g", "float")],
        " and ".join(prea + preb + ["f > 0.0", "g > 0.0"]), body,
        timeout=timeout, setup=_setup(tree), tree=tree.expr, bounds=bounds_text(tree, 2, factors="f, g symbolic reals > 0"),
    )


def gate(tree, mode, timeout=40):
    p, pre, code = data_params(tree, 1, mode=mode)
    body = code + """
a = fresh(MK, 1)[0]
a.fill(data[0])
jz = J(a.zero())
if not jeq(J(a * f), jz): return "nonpositive-factor-not-empty"
if not jeq(J(f * a), jz): return "nonpositive-factor-not-empty-rmul"
if not jeq(J(a * NAN), jz): return "nan-factor-not-empty"
if not jeq(J(a * 0), jz): return "int-zero-factor-not-empty"
if not jeq(J(a * -0.0), jz): return "negzero-factor-not-empty"
if not jeq(J(a * -INF), jz): return "neginf-factor-not-empty"
z = a * f
z.fill(data[0])
a2 = fresh(MK, 1)[0]
a2.fill(data[0])
if not jeq(J(z), J(a2)): return "zero-scaled-result-not-fillable-like-empty"
"""
    return Harness(
        f"C08/gate/{tree.name}/{mode}", p + [("f", "float")], " and ".join(pre + ["not (f > 0.0)"]), body, mode=mode,
        timeout=timeout, setup=_setup(tree), tree=tree.expr,
        bounds=bounds_text(tree, 1, factor="symbolic with not(f > 0)" + (" incl. NaN/-inf/-0.0" if mode == "ieee" else " (reals <= 0) + concrete NaN, 0, -0.0, -inf")),
    )


def json_commute(tree, timeout=60, fixy=False):
    p, pre, code = data_params(tree, 1, mode="real", fix_leaf_y=fixy)
    body = code + """
a = fresh(MK, 1)[0]
a.fill(data[0])
ra = Factory.fromJson(J(a))
left = J(ra * f)
right = J(Factory.fromJson(J(a * f)))
if not jeq(left, right): return "scaling-does-not-commute-with-json"
if not jeq(left, J(a * f)): return "reloaded-scales-differently"
rs = ra * f
t = rs + ra
if not jeq(J(t), J(a * f + a)): return "merge-of-scaled-reload-differs"
"""
    return Harness(
        f"C08/json/{tree.name}" + ("-fixy" if fixy else ""), p + [("f", "float")], " and ".join(pre + ["f > 0.0"]), body,
        timeout=timeout, setup=_setup(tree), tree=tree.expr, bounds=bounds_text(tree, 1, factor="symbolic real > 0"),
    )


def count_transform(timeout=30):
    body = """
with NT():
    c = H.Count(lambda w: w * w)
c.fill(None, w)
r = raises(lambda: c * f)
if r != "ContainerException": return "count-with-transform-scaled:" + str(r)
r = raises(lambda: f * c)
if r != "ContainerException": return "count-with-transform-rscaled:" + str(r)
"""
    return Harness("C08/count-transform", [("w", "float"), ("f", "float")], "w > 0.0", body, timeout=timeout, setup=SETUP,
                   tree="H.Count(lambda w: w*w)", bounds="weight and factor symbolic reals")


def hashable(tree, timeout=30):
    body = """
a = fresh(MK, 1)[0]
a.fill((0.5, 1.5, "a", 1.0)); a.fill((k * 1.0, 0.25, "b", 2.5))
s = a * 0.5
h1 = hash(s)
if not isinstance(h1, int): return "hash-of-scaled-result-is-not-an-int"
s2 = a * 0.5
txt = repr(s)
ch = s.children
jj = J(s)
# equal results must hash alike - asserted only for states without NaN fields: CPython >= 3.10 hashes a NaN by object
# identity, so two equal aggregators that hold (different) NaN objects hash differently; C08 asks that the scaled
# result "can be hashed", not for more than Python's own float hashing gives
if not _has_nan(jj) and hash(s2) != h1: return "hash-of-equal-scaled-results-differs"
"""
    has_nan = '''
def _has_nan(doc):
    if isinstance(doc, str): return doc == "nan"
    if isinstance(doc, dict): return any(_has_nan(v) for v in doc.values())
    if isinstance(doc, (list, tuple)): return any(_has_nan(v) for v in doc)
    return False
'''
    return Harness(f"C08/hash/{tree.name}", [("k", "int")], "0 <= k <= 2", body, timeout=timeout, setup=_setup(tree) + has_nan,
                   tree=tree.expr, bounds=bounds_text(tree, 2, data="concrete records, selector k in 0..2, factor 0.5"))


def harnesses(tier):
    import gen_C08_extra
    out = gen_C08_extra.harnesses(tier) + [count_transform()]
    units = cat.unit()
    for t in units:
        out.append(refill(t, 1))
        if t.uses_x:
            out.append(refill(t, 1, special=True, timeout=90))
        out.append(refill(t, 2, timeout=90))
        out.append(laws(t))
        out.append(gate(t, "ieee" if t.cmp_only else "real"))
        out.append(json_commute(t))
        out.append(hashable(t))
    slots = cat.slot()
    if tier == "thorough":
        slots = slots[::3]  # thorough tier is sized by wall time (see DESIGN.md 7.1)
    if tier == "quick":
        slots = [t for i, t in enumerate(slots) if i % 8 == 4]
    big = 60 if tier == "quick" else 240
    for t in slots + cat.deep():
        out.append(refill(t, 1, timeout=big, fixy=(tier == "quick")))
        out.append(json_commute(t, timeout=big, fixy=(tier == "quick")))
    if tier == "thorough":
        for t in units:
            out.append(refill(t, 2, weights=True, timeout=240))
            if t.cmp_only:
                out.append(gate(t, "real"))   # quick has the ieee twin for comparison-only trees
        for t in slots + cat.deep():
            out.append(laws(t, timeout=big))
            out.append(gate(t, "real", timeout=90))
            out.append(hashable(t))
    return out
