"""C16 one aggregator placed at two positions of a tree is detected, not double-filled."""
from gen_common import SETUP
from run import Harness

ASSUMPTIONS = [
    "the two positions holding the shared object are symbolic indices into the skeleton's position list; the datum is symbolic",
    "a literal cycle (a node that is its own descendant) is not built: fill would not terminate; 'node and descendant' is covered "
    "as one object at two different depths",
]

SKELETONS = {
    "Branch3": (3, "H.Branch(ps[0], ps[1], ps[2])"),
    "Index3": (3, "H.Index(ps[0], ps[1], ps[2])"),
    "Label3": (3, "H.Label(a=ps[0], b=ps[1], c=ps[2])"),
    "UntypedLabel3": (3, "H.UntypedLabel(a=ps[0], b=ps[1], c=ps[2])"),
    "Cousins": (4, "H.Branch(H.Index(ps[0], ps[1]), H.Index(ps[2], ps[3]))"),
    "Depths": (3, "H.Branch(ps[0], H.Select(qb, ps[1]), H.Select(qb, H.Select(qb, ps[2])))"),
    "UnderBin": (3, "H.Bin(2, 0.0, 2.0, qx, H.Branch(ps[0], ps[1], ps[2]))"),
    "FractionSlots": (2, "_fraction(ps)"),
    "BinFlows": (3, "_binflows(ps)"),
    "NanflowsOfSiblings": (3, "_nanflows(ps)"),
    "LabelEd": (3, "H.Label.ed(0.0, a=ps[0], b=ps[1], c=ps[2])"),
    "IndexEd": (3, "H.Index.ed(0.0, ps[0], ps[1], ps[2])"),
    "BranchEdOfLabelEd": (2, "H.Branch.ed(0.0, H.Label.ed(0.0, x=ps[0]), H.UntypedLabel.ed(0.0, y=ps[1]))"),
    "NanflowAndCut": (2, "_nanflow_and_cut(ps)"),
}
SHARED = {
    "Sum": "H.Sum(qx)",
    "Count": "H.Count()",
    "Bin": "H.Bin(2, 0.0, 2.0, qx)",
    "Categorize": "H.Categorize(qc)",
    "Select": "H.Select(qb, H.Sum(qx))",
}
C16_SETUP = SETUP + '''
def _fraction(ps):
    t = H.Fraction(qb, H.Count())
    t.numerator, t.denominator = ps[0], ps[1]
    return t

def _nanflows(ps):
    a = H.SparselyBin(1.0, qx); b = H.CentrallyBin([0.0, 2.0], qx); c = H.Stack([0.0], qx)
    a.nanflow, b.nanflow, c.nanflow = ps[0], ps[1], ps[2]
    return H.Branch(a, b, c)

def _nanflow_and_cut(ps):
    a = H.IrregularlyBin([0.0], qx)
    a.nanflow = ps[0]
    return H.Branch(H.Select(qb, a), H.Select(qb, ps[1]))

def _binflows(ps):
    t = H.Bin(2, 0.0, 2.0, qx)
    t.underflow, t.overflow, t.nanflow = ps[0], ps[1], ps[2]
    return t
'''


def node_and_descendant(kind, prefilled, timeout=40):
    """one object installed as a child AND one of its own descendants installed next to it (no cycle: the descendant is
    reachable twice, once through its parent and once directly)"""
    mk = {"Select": "H.Select(qb, H.Bin(2, 0.0, 2.0, qx))", "Label": "H.Label(a=H.Sum(qx), b=H.Sum(qy))",
          "Bin": "H.Bin(2, 0.0, 2.0, qx, H.Sum(qy))", "Fraction": "H.Fraction(qb, H.Sum(qx))"}[kind]
    desc = {"Select": "p.cut", "Label": "p.get('a')", "Bin": "p.values[1]", "Fraction": "p.numerator"}[kind]
    body = f"""
d0 = (0.5, 0.5, "a", 1.0)
d = (x, 0.5, "a", 1.0)
p = {mk}
{"p.fill(d0)" if prefilled else ""}
c = {desc}
t = H.Branch(p, c) if k == 0 else (H.Branch(c, p) if k == 1 else H.Index(H.Select(qb, c), H.Select(qb, p)))
before = J(t)
r = raises(t.fill, d)
if r != "ContainerException": return "descendant-shared-with-its-ancestor-not-detected:" + str(r)
if not jeq(J(t), before): return "state-changed-before-detection"
r = raises(t.fill, d)
if r != "ContainerException": return "not-detected-on-later-fill:" + str(r)
"""
    return Harness(f"C16/descendant/{{}}/{{}}".format(kind, "prefilled" if prefilled else "fresh"), [("k", "int"), ("x", "float")],
                   "0 <= k <= 2 and -2.0 <= x < 2.0", body, timeout=timeout, setup=C16_SETUP, tree=mk,
                   bounds="a node and one of its own descendants installed side by side (3 arrangements by selector); symbolic datum; " + ("ancestor filled once before" if prefilled else "fresh"))


def shared(sk, leaf, prefilled, timeout=40):
    npos, expr = SKELETONS[sk]
    if sk == "UnderBin":
        # Bin zero()-copies its value template: sharing inside each copy is rebuilt from the template's structure,
        # so install the shared pair into the live bins after construction
        build = f"""
ps0 = [LEAF() for _ in range({npos})]
t = H.Bin(2, 0.0, 2.0, qx, H.Branch(*ps0))
for v in t.values:
    lst = list(v.values)
    lst[j] = lst[i]
    v.values = tuple(lst)
"""
    else:
        build = f"""
ps = [LEAF() for _ in range({npos})]
{"for p in ps: p.fill(d0)" if prefilled else ""}
ps[j] = ps[i]
t = {expr}
"""
    body = f"""
d0 = (0.5, 0.5, "a", 1.0)
d = (x, 0.5, "a", 1.0)
{build}
before = J(t)
r = raises(t.fill, d)
if r != "ContainerException": return "shared-node-not-detected-on-first-fill:" + str(r)
if not jeq(J(t), before): return "state-changed-before-detection"
r = raises(t.fill, d)
if r != "ContainerException": return "shared-node-not-detected-on-later-fill:" + str(r)
if not jeq(J(t), before): return "state-changed-on-later-fill"
"""
    return Harness(
        f"C16/shared/{sk}/{leaf}/{'prefilled' if prefilled else 'fresh'}",
        [("i", "int"), ("j", "int"), ("x", "float")], f"0 <= i < j < {npos} and -2.0 <= x < 2.0", body, timeout=timeout,
        setup=C16_SETUP + f"LEAF = lambda: {SHARED[leaf]}\n", tree=expr,
        bounds=f"skeleton {sk} with {npos} fillable positions; shared {leaf} at symbolic positions i<j; symbolic datum; "
        + ("leaves filled once standalone before being installed" if prefilled else "fresh leaves"),
    )


NEGATIVE = {
    "Branch(c,c.zero())/SparselyBin": "_twin(H.SparselyBin(1.0, qx, H.Sum(qx)))",
    "Branch(c,c.zero())/Categorize": "_twin(H.Categorize(qc, H.Sum(qx)))",
    "Branch(c,c.copy())/Bin": "_twin2(H.Bin(2, 0.0, 2.0, qx, H.Sum(qx)))",
    "Bin(value=Categorize)": "H.Bin(2, 0.0, 2.0, qx, H.Categorize(qc, H.Sum(qx)))",
    "Index(zero-twins)/Select": "_twin3(H.Select(qb, H.SparselyBin(1.0, qx, H.Count())))",
    "Label(sum-of-parts)": "_added(H.Categorize(qc, H.Sum(qx)))",
}
NEG_SETUP = SETUP + '''
def _twin(c):
    return H.Branch(c, c.zero())

def _twin2(c):
    return H.Branch(c, c.copy())

def _twin3(c):
    return H.Index(c, c.zero(), c.zero())

def _added(c):
    c.fill((0.5, 0.5, "a", 1.0))
    return H.Label(a=c + c.zero(), b=c.zero() + c)
'''


def negative(name, expr, timeout=60):
    body = f"""
with NT():
    t = {expr}
d = (x, 0.5, "a", 1.0)
r = raises(t.fill, d)
if r is not None: return "tree-without-shared-fillable-node-rejected:" + str(r)
r = raises(t.fill, d)
if r is not None: return "second-fill-rejected:" + str(r)
"""
    return Harness(
        f"C16/negative/{name}", [("x", "float")], "-2.0 <= x < 2.0", body, timeout=timeout, setup=NEG_SETUP, tree=expr,
        bounds="tree whose sparse containers share only never-filled templates; symbolic datum in [-2,2)",
    )


def harnesses(tier):
    out = []
    for sk in SKELETONS:
        leaves = list(SHARED) if tier == "thorough" else ["Sum", "Bin", "Categorize"]
        for leaf in leaves:
            if sk in ("Label3", "Index3") or True:
                out.append(shared(sk, leaf, False))
            if sk != "UnderBin":
                out.append(shared(sk, leaf, True))
    for kind in ("Select", "Label", "Bin", "Fraction"):
        out.append(node_and_descendant(kind, False))
        out.append(node_and_descendant(kind, True))
    for n, e in NEGATIVE.items():
        out.append(negative(n, e))
    return out
