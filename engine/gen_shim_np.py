"""numpy model access for harnesses that are not C03's (imported inside harness bodies)"""
import npmodel
import vp

if vp.SYMBOLIC:
    ARR = lambda xs: npmodel.array(xs)
    NPM = npmodel.installed
else:
    import numpy as _np

    ARR = lambda xs: _np.array(xs, dtype=float) if not any(isinstance(x, str) for x in xs) else _np.array(xs)
    NPM = vp.NT


class Cols:
    def __init__(self, cols):
        self.cols = tuple(cols)

    def __getitem__(self, k):
        if isinstance(k, int):
            return self.cols[k]
        return Cols([c[k] for c in self.cols])

    def __len__(self):
        return len(self.cols)


def columns(data):
    return Cols(tuple(ARR([d[i] for d in data]) for i in range(4)))
