"""C01 merge is a commutative-monoid homomorphism (partition invariance, identity, comm., assoc.)."""
import catalogue as cat
from gen_common import SETUP, SPECIAL_XY, bounds_text, data_params
from run import Harness

ASSUMPTIONS = [
    "tree shapes are the concrete catalogue instantiations listed in samples; data, weights and (in ieee mode) "
    "NaN/inf/-0.0 are symbolic; outside the claim: n > 3, more than 3 chunks, depth > 3, rounding in accumulated sums",
]


def _setup(tree):
    return SETUP + f"\nMK = lambda: {tree.expr}\n"


def partition2(tree, n, k, mode, weights=False, special=False, timeout=40):
    # weights: any finite value, sign free (non-positive weights must be no-ops on both sides)
    params, pre, code = data_params(tree, n, weights=weights, special=special, mode=mode, wsign="any")
    body = code + f"""
a, b, c = fresh(MK, 3)
for d, w in zip(data, ws): a.fill(d, w)
for d, w in zip(data[:{k}], ws[:{k}]): b.fill(d, w)
for d, w in zip(data[{k}:], ws[{k}:]): c.fill(d, w)
ja = J(a)
if not jeq(ja, J(b + c)): return "partition"
if not jeq(ja, J(c + b)): return "partition-commuted"
if not jeq(ja, J(D.combine(b, c))): return "combine"
if not jeq(ja, J(a + a.zero())): return "right-identity"
if not jeq(ja, J(a.zero() + a)): return "left-identity"
"""
    tag = ("w" if weights else "") + ("s" if special else "")
    return Harness(
        f"C01/part2/{tree.name}/n{n}k{k}/{mode}{tag}",
        params,
        " and ".join(pre),
        body,
        mode=mode,
        timeout=timeout,
        setup=_setup(tree),
        tree=tree.expr,
        special=SPECIAL_XY if special else None,
        bounds=bounds_text(tree, n, chunks=2, cut=k, weights="symbolic finite (any sign)" if weights else "1.0",
                           data="finite reals + nan/+inf/-inf" if special else ("any float64" if mode == "ieee" else "finite reals")),
    )


def partition_reloaded(tree, special=False, timeout=60):
    """partial results travel as JSON (as in the Spark path): chunks are reloaded before they are merged"""
    params, pre, code = data_params(tree, 2, special=special, mode="real")
    body = code + """
a, b, c = fresh(MK, 3)
for d, w in zip(data, ws): a.fill(d, w)
b.fill(data[0], ws[0]); c.fill(data[1], ws[1])
ja = J(a)
rb, rc = Factory.fromJson(J(b)), Factory.fromJson(J(c))
if not jeq(ja, J(rb + rc)): return "merge-of-reloaded-partials"
if not jeq(ja, J(b + rc)): return "live-plus-reloaded"
if not jeq(ja, J(rc + b)): return "reloaded-plus-live"
z = Factory.fromJson(J(a.zero()))
if not jeq(ja, J(a + z)) or not jeq(ja, J(z + a)): return "reloaded-zero-is-not-an-identity"
"""
    return Harness(
        f"C01/reloaded/{tree.name}" + ("/s" if special else ""), params, " and ".join(pre), body, timeout=timeout, setup=_setup(tree),
        tree=tree.expr, special=SPECIAL_XY if special else None,
        bounds=bounds_text(tree, 2, chunks="2 one-record chunks, reloaded from JSON before merging", data="finite reals + nan/+inf/-inf" if special else "finite reals"),
    )


def partition3(tree, mode, timeout=60):
    """3 records -> 3 one-record chunks; reductions in several orders and both groupings."""
    params, pre, code = data_params(tree, 3, mode=mode)
    body = code + """
a, b, c, e = fresh(MK, 4)
for d, w in zip(data, ws): a.fill(d, w)
b.fill(data[0], ws[0]); c.fill(data[1], ws[1]); e.fill(data[2], ws[2])
ja = J(a)
if not jeq(ja, J((b + c) + e)): return "assoc-left"
if not jeq(ja, J(b + (c + e))): return "assoc-right"
if not jeq(ja, J((e + c) + b)): return "reversed-left"
if not jeq(ja, J(c + (e + b))): return "rotated-right"
"""
    return Harness(
        f"C01/part3/{tree.name}/{mode}",
        params,
        " and ".join(pre),
        body,
        mode=mode,
        timeout=timeout,
        setup=_setup(tree),
        tree=tree.expr,
        bounds=bounds_text(tree, 3, chunks=3, schedules="(b+c)+e, b+(c+e), (e+c)+b, c+(e+b)"),
    )


def laws(tree, mode, timeout=90):
    """a, b, c each hold 0..1 records (presence symbolic): identity, commutativity, associativity."""
    params, pre, code = data_params(tree, 3, mode=mode)
    params = params + [("pa", "bool"), ("pb", "bool"), ("pc", "bool")]
    body = code + """
a, b, c = fresh(MK, 3)
if pa: a.fill(data[0])
if pb: b.fill(data[1])
if pc: c.fill(data[2])
ja = J(a)
if not jeq(ja, J(a + a.zero())): return "right-identity"
if not jeq(ja, J(a.zero() + a)): return "left-identity"
if not jeq(J(a + b), J(b + a)): return "commutative"
if not jeq(J((a + b) + c), J(a + (b + c))): return "associative"
"""
    return Harness(
        f"C01/laws/{tree.name}/{mode}",
        params,
        " and ".join(pre),
        body,
        mode=mode,
        timeout=timeout,
        setup=_setup(tree),
        tree=tree.expr,
        bounds=bounds_text(tree, 3, states="each of a,b,c empty or one record"),
    )


WEIGHTED = ("Count", "Sum", "Average", "Minimize", "Bag", "Bin", "Categorize", "Select", "Fraction", "Stack")


def harnesses(tier):
    out = []
    units = cat.unit()
    for t in units:
        n = 2
        for k in range(n + 1):
            out.append(partition2(t, n, k, "real"))
        if t.cmp_only:
            for k in range(n + 1):
                out.append(partition2(t, n, k, "ieee"))
            out.append(partition3(t, "ieee"))
        if t.name in WEIGHTED:
            out.append(partition2(t, 2, 1, "real", weights=True))
        if t.uses_x and not t.cmp_only:
            out.append(partition2(t, 2, 1, "real", special=True, timeout=60))
        out.append(partition3(t, "real"))
    for t in cat.extra_unit():
        out.append(partition2(t, 2, 1, "real", special=True, timeout=90))
        out.append(partition2(t, 2, 1, "real", weights=True, timeout=90))
    for t in units + cat.extra_unit():
        out.append(partition_reloaded(t, special=t.uses_x or t.uses_y))
    slots = cat.slot()
    if tier == "thorough":
        slots = slots[::2]  # thorough tier is sized by wall time (see DESIGN.md 7.1)
    if tier == "quick":
        # a representative third: every slot once, children rotating through all primitives
        slots = [t for i, t in enumerate(slots) if i % 3 == 0]
    for t in slots:
        out.append(partition2(t, 2, 1, "real", timeout=60))
    for t in cat.deep():
        out.append(partition2(t, 2, 1, "real", timeout=60))
    if tier == "thorough":
        for t in units:
            out.append(laws(t, "real"))
            if t.cmp_only:
                out.append(laws(t, "ieee"))
        for t in slots + cat.deep():
            out.append(partition2(t, 2, 0, "real", timeout=60))
            out.append(partition2(t, 2, 2, "real", timeout=60))
            out.append(partition3(t, "real", timeout=180))
        for t in units:
            if t.uses_x:
                out.append(partition2(t, 3, 1, "real", timeout=180))
                out.append(partition2(t, 3, 2, "real", timeout=180))
    return out
