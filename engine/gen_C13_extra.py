"""C13: the accessors on the real numpy, concrete (the symbolic harnesses see exact reals; np.arange / np.linspace over a
float step round).  Sampled configurations with non-dyadic widths, labelled as such."""
from gen_common import SETUP
from run import Harness

AP_SETUP = SETUP + '''
import numpy as _rnp
ident = lambda a: a
APCFG = [(4, 0.0, 4.0), (10, 0.0, 1.0), (3, 0.0, 0.3), (7, -1.0 / 3.0, 2.0 / 3.0), (7, 0.0, 1.005), (9, 0.0, 0.9), (11, -0.55, 0.55),
         (100, 1e6 + 0.1, 1e6 + 10.1), (5, -1e-3, 1e-3), (6, 0.1, 0.7), (13, 0.0, 1.3), (1, -1.0, 1.0)]
'''


def accessor_probes(k, cfg, timeout=40):
    body = f"""
with NT():
    num, low, high = APCFG[{k}]
    h = H.Bin(num, low, high, ident)
    for i in range(num): h.fill(low + (i + 0.5) * (high - low) / num, float(i + 1))
    res = ""
    c = list(h.bin_centers()); e = list(h.bin_edges()); n = h.num_bins(); v = list(h.bin_entries())
    if not (len(c) == num and n == num and len(e) == num + 1 and len(v) == num): res = "full-range-accessors-disagree-on-the-number-of-bins:%d centres %d edges %d entries num_bins %d for %d bins" % (len(c), len(e), len(v), n, num)
    if not res and not all(e[i] < c[i] < e[i + 1] for i in range(num)): res = "a-centre-lies-outside-the-edges-of-its-bin"
    if not res and v != [float(i + 1) for i in range(num)]: res = "bin_entries-differ-from-what-was-filled"
    if not res and max(abs(low), abs(high)) <= 10.0:   # the accessors compare with np.isclose (relative 1e-5): sub-ranges only where that is far below a bin width
        mids = [low + (i + 0.5) * (high - low) / num for i in range(num)]
        pick = sorted(set([0, num // 3, num // 2, num - 1]))
        for i in pick:
            for j in pick:
                if i >= j: continue
                lo, hi = mids[i], mids[j]
                cc = list(h.bin_centers(lo, hi)); ee = list(h.bin_edges(lo, hi)); nn = h.num_bins(lo, hi); vv = list(h.bin_entries(lo, hi))
                if not (len(cc) == nn == len(vv) == len(ee) - 1 == j - i + 1):
                    res = res or "sub-range-accessors-disagree:%d..%d gives %d centres %d edges %d entries num_bins %d" % (i, j, len(cc), len(ee), len(vv), nn)
                elif vv != [float(t + 1) for t in range(i, j + 1)]:
                    res = res or "sub-range-entries-differ-from-what-was-filled:%d..%d" % (i, j)
if res: return res
if tick < 0: return "unreachable"
"""
    return Harness(f"C13/accessor-probes/Bin/{cfg!r}".replace(" ", ""), [("tick", "int")], "0 <= tick <= 0", body, timeout=timeout, setup=AP_SETUP,
                   tree="H.Bin(%r, %r, %r, ident)" % cfg,
                   bounds="real numpy, concrete: every bin filled at its midpoint with weight i+1; full range, and (for |low|, |high| <= 10) sub-ranges between distinct bin midpoints")


CFGS = [(4, 0.0, 4.0), (10, 0.0, 1.0), (3, 0.0, 0.3), (7, -1.0 / 3.0, 2.0 / 3.0), (7, 0.0, 1.005), (9, 0.0, 0.9), (11, -0.55, 0.55),
        (100, 1e6 + 0.1, 1e6 + 10.1), (5, -1e-3, 1e-3), (6, 0.1, 0.7), (13, 0.0, 1.3), (1, -1.0, 1.0)]


def harnesses(tier):
    return [accessor_probes(k, cfg) for k, cfg in enumerate(CFGS)]
