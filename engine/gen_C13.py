"""C13 derived views (bin edges, centres, entries, grids, projections) agree with fill."""
from gen_common import SETUP
from run import Harness

ASSUMPTIONS = [
    "numpy calls inside the accessors (isclose, round, linspace, arange, concatenate, diff, finfo) are the exact-real model of "
    "engine/npmodel.py; bin configurations are concrete, fills / sub-range / probes are symbolic reals",
    "the oracle allows the accessors' own np.isclose tolerance (rtol 1e-5, atol 1e-8) when it checks that the returned edges cover "
    "the requested range; outside: IEEE rounding inside round()/linspace, matplotlib/bokeh drawing",
]

C13_SETUP = SETUP + '''
import npmodel
NPM = npmodel.installed if SYMBOLIC else NT
TOL = 1e-4

def aslist(a):
    return list(a.tolist()) if hasattr(a, "tolist") else list(a)
'''

CONSIST = """
with NPM():
    nb = h.num_bins(lo, hi)
    edges = aslist(h.bin_edges(lo, hi))
    centers = aslist(h.bin_centers(lo, hi))
    ents = aslist(h.bin_entries(lo, hi))
    full_edges = aslist(h.bin_edges())
    full_ents = aslist(h.bin_entries())
    full_centers = aslist(h.bin_centers())
if len(edges) != nb + 1: return "edges-vs-num_bins"
if len(centers) != nb: return "centers-vs-num_bins"
if len(ents) != nb: return "entries-vs-num_bins"
if len(full_edges) != len(full_ents) + 1 or len(full_centers) != len(full_ents): return "full-range-lengths-inconsistent"
for i in range(len(edges) - 1):
    if not (edges[i] < edges[i + 1]): return "edges-not-increasing"
    if finite(edges[i]) and finite(edges[i + 1]):
        if not (edges[i] < centers[i] < edges[i + 1]): return "center-not-between-its-edges"
"""

BIN_CFGS = {"4,0,4": (4, 0.0, 4.0), "2,-1,1": (2, -1.0, 1.0), "8,0,2": (8, 0.0, 2.0)}


def bin_views(name, cfg, seg=None, timeout=90):
    num, low, high = cfg
    w = (high - low) / num
    segpre = ""
    if seg is not None:
        i, j = seg
        segpre = f" and {low + i * w} <= lo < {low + (i + 1) * w} and {low + j * w} < hi <= {low + (j + 1) * w}"
    body = f"""
h = fresh(MK, 1)[0]
h.fill((x1, 0.0, None, 0.0)); h.fill((x2, 0.0, None, 0.0))
""" + CONSIST + f"""
# the sub-range view is a contiguous run of the full-range partition and covers [lo, hi] within the binned domain
j0 = None
for j in range(len(full_edges)):
    if full_edges[j] == edges[0]: j0 = j
if j0 is None: return "sub-range-edge-is-not-an-edge-of-the-partition"
for i in range(len(edges)):
    if j0 + i >= len(full_edges) or edges[i] != full_edges[j0 + i]: return "sub-range-edges-not-contiguous"
for i in range(nb):
    if ents[i] != full_ents[j0 + i]: return "sub-range-entries-differ-from-bins"
    if centers[i] != full_centers[j0 + i]: return "sub-range-centers-differ"
if nb > 0:
    if edges[0] > max(lo, {low}) + TOL: return "sub-range-starts-after-requested-low"
    if edges[-1] < min(hi, {high}) - TOL: return "sub-range-ends-before-requested-high"
    if edges[0] + {w} <= max(lo, {low}) - TOL: return "sub-range-has-a-bin-entirely-below-low"
    if edges[-1] - {w} >= min(hi, {high}) + TOL: return "sub-range-has-a-bin-entirely-above-high"
# probe: bin_entries(xvalues=[p]) is the content of the bin that fill(p) increments
with NPM():
    got = aslist(h.bin_entries(xvalues=[p]))[0]
before = [v.entries for v in h.values]
h.fill((p, 0.0, None, 0.0))
after = [v.entries for v in h.values]
want = 0.0
for i in range(len(before)):
    if after[i] != before[i]:
        want = before[i]
        if not (full_edges[i] <= p < full_edges[i + 1]): return "datum-outside-the-reported-edges-of-its-bin"
if got != want: return "bin_entries-xvalues-disagrees-with-fill"
"""
    return Harness(
        f"C13/bin/{name}" + (f"/seg{seg[0]}-{seg[1]}" if seg is not None else ""), [("x1", "float"), ("x2", "float"), ("lo", "float"), ("hi", "float"), ("p", "float")],
        f"lo + 1e-3 < hi and {low - w} <= lo and hi <= {high + w} and lo < {high} - 1e-3 and hi > {low} + 1e-3" + segpre, body, timeout=timeout,
        setup=C13_SETUP + f"MK = lambda: H.Bin({num}, {low}, {high}, qx)\n", tree=f"H.Bin({num}, {low}, {high})",
        bounds=f"Bin({num},{low},{high}); 2 symbolic fills; symbolic sub-range lo<hi overlapping the domain by more than 1e-3 (well above the accessors' isclose tolerance), at most one bin width outside; symbolic probe",
    )


def sparse_views(timeout=120):
    bw, origin = 0.5, 0.25
    body = """
h = fresh(MK, 1)[0]
h.fill((x1, 0.0, None, 0.0)); h.fill((x2, 0.0, None, 0.0))
""" + CONSIST + f"""
for e in edges:
    k = (e - {origin}) / {bw}
    if k != math.floor(k): return "edge-is-not-on-the-sparse-grid"
for i in range(nb):
    idx = int(math.floor((edges[i] - {origin}) / {bw}))
    want = h.bins[idx].entries if idx in h.bins else 0.0
    if ents[i] != want: return "sub-range-entries-differ-from-bins"
if nb > 0:
    if edges[0] > lo + TOL: return "sub-range-starts-after-requested-low"
    if edges[-1] < hi - TOL: return "sub-range-ends-before-requested-high"
with NPM():
    got = aslist(h.bin_entries(xvalues=[p]))[0]
pb = h.bin(p)
want = h.bins[pb].entries if pb in h.bins else 0.0
if got != want: return "bin_entries-xvalues-disagrees-with-bins"
lo_e, hi_e = h.range(pb)
if not (lo_e <= p < hi_e): return "datum-outside-the-reported-edges-of-its-bin"
"""
    return Harness(
        "C13/sparse/0.5@0.25", [("x1", "float"), ("x2", "float"), ("lo", "float"), ("hi", "float"), ("p", "float")],
        "-2.0 <= x1 < 2.0 and -2.0 <= x2 < 2.0 and -2.0 <= lo < hi <= 2.0 and -2.0 <= p < 2.0", body, timeout=timeout,
        setup=C13_SETUP + f"MK = lambda: H.SparselyBin({bw}, qx, H.Count(), H.Count(), {origin})\n", tree=f"H.SparselyBin({bw}, origin={origin})",
        bounds="SparselyBin(0.5, origin 0.25); fills, sub-range and probe symbolic in [-2, 2)",
    )


def list_views(cls, expr, pts, timeout=120):
    """CentrallyBin / IrregularlyBin: index-based views"""
    body = """
h = fresh(MK, 1)[0]
h.fill((x1, 0.0, None, 0.0)); h.fill((x2, 0.0, None, 0.0))
""" + CONSIST + """
j0 = None
for j in range(len(full_centers)):
    if nb > 0 and (full_centers[j] == centers[0] or (full_centers[j] != full_centers[j] and centers[0] != centers[0])): j0 = j
if nb > 0:
    if j0 is None: return "sub-range-center-unknown"
    for i in range(nb):
        if ents[i] != full_ents[j0 + i]: return "sub-range-entries-differ-from-bins"
    if not (edges[0] <= lo): return "sub-range-starts-after-requested-low"
    if not (edges[-1] >= hi): return "sub-range-ends-before-requested-high"
with NPM():
    got = aslist(h.bin_entries(xvalues=[p]))[0]
before = [v.entries for c, v in h.bins]
h.fill((p, 0.0, None, 0.0))
after = [v.entries for c, v in h.bins]
want = None
for i in range(len(before)):
    if after[i] != before[i]:
        want = before[i]
        if not (full_edges[i] <= p <= full_edges[i + 1]): return "datum-outside-the-reported-edges-of-its-bin"
if want is None: return "probe-fill-changed-no-bin"
if got != want: return "bin_entries-xvalues-disagrees-with-fill"
"""
    return Harness(
        f"C13/{cls}", [("x1", "float"), ("x2", "float"), ("lo", "float"), ("hi", "float"), ("p", "float")],
        f"lo < hi and {pts[0] - 2.0} <= lo and hi <= {pts[-1] + 2.0}", body, timeout=timeout,
        setup=C13_SETUP + f"MK = lambda: {expr}\n", tree=expr,
        bounds=f"{expr}; 2 symbolic fills; symbolic sub-range within 2.0 of the outermost points; symbolic probe",
    )


def grid2d(timeout=120):
    body = """
h = fresh(MK, 1)[0]
recs = [(x1, y1, None, 0.0), (x2, y2, None, 0.0)]
for r in recs: h.fill(r)
inr = 0.0
for r in recs:
    if 0.0 <= r[0] < 2.0 and 0.0 <= r[1] < 2.0: inr += 1.0
tot = 0.0
for vx in h.values:
    for vy in vx.values: tot = tot + vy.entries
if tot != inr: return "grid-sum-differs-from-in-range-weight"
# projection on x: content of x-bin i is its in-range-in-y total plus its y-flows
for i, vx in enumerate(h.values):
    s = vx.underflow.entries + vx.overflow.entries + vx.nanflow.entries
    for vy in vx.values: s = s + vy.entries
    if s != vx.entries: return "x-projection-differs"
"""
    return Harness("C13/grid/Bin2x2", [("x1", "float"), ("y1", "float"), ("x2", "float"), ("y2", "float")], "True", body,
                   timeout=timeout, setup=C13_SETUP + "MK = lambda: HC.TwoDimensionallyHistogram(2, 0.0, 2.0, qx, 2, 0.0, 2.0, qy)\n",
                   tree="TwoDimensionallyHistogram(2,0,2,2,0,2)", bounds="2 symbolic (x,y) fills; grid and x-projection totals")


GRID_TREES = {
    "Bin2x2": ("HC.TwoDimensionallyHistogram(2, 0.0, 2.0, qx, 2, 0.0, 2.0, qy)", "-1.0 <= {v} < 3.0"),
    "Sparse2D": ("HC.TwoDimensionallySparselyHistogram(1.0, qx, 1.0, qy)", "-2.0 <= {v} < 2.0"),
    "Bin>Sparse": ("H.Bin(2, 0.0, 2.0, qx, H.SparselyBin(1.0, qy))", "-2.0 <= {v} < 2.0"),
    "Sparse>Bin": ("H.SparselyBin(1.0, qx, H.Bin(2, 0.0, 2.0, qy))", "-2.0 <= {v} < 2.0"),
    "Categorize>Bin": ("H.Categorize(lambda d: 'p' if d[0] > 0.5 else 'q', H.Bin(2, 0.0, 2.0, qy))", "-2.0 <= {v} < 3.0"),
}


def grid_numpy(name, timeout=90):
    """get_2dgrid (plot/hist_numpy.py) with the real numpy: unit weights keep every cell content concrete, the routing
    of the two symbolic (x, y) records is what the solver explores"""
    expr, rng = GRID_TREES[name]
    pre = " and ".join(rng.format(v=v) for v in ("x1", "y1", "x2", "y2"))
    body = """
from histogrammar.plot.hist_numpy import get_2dgrid, prepare_2dgrid
with NT():   # history: the grid helpers have already been used on differently shaped histograms in this process
    for other in (HC.TwoDimensionallySparselyHistogram(1.0, qx, 1.0, qy), H.Bin(3, -3.0, 3.0, qx, H.Bin(5, -5.0, 5.0, qy))):
        for r0 in ((0.5, -2.5, None, 0.0), (-1.5, 4.5, None, 0.0), (2.5, 1.5, None, 0.0)): other.fill(r0)
        get_2dgrid(other)
h = fresh(MK, 1)[0]
recs = [(x1, y1, None, 0.0), (x2, y2, None, 0.0)]
for r in recs: h.fill(r)
xl, yl, grid = get_2dgrid(h)
xkeys, ykeys = prepare_2dgrid(h)
if grid.shape != (len(ykeys), len(xkeys)) or len(xl) != len(xkeys) or len(yl) != len(ykeys): return "grid-shape-vs-labels"
def cell(xk, yk):
    sub = h.bins[xk] if hasattr(h, "bins") else h.values[xk]
    if hasattr(sub, "bins"):
        return sub.bins[yk].entries if yk in sub.bins else 0.0
    return sub.values[yk].entries
tot = 0.0
for i, xk in enumerate(xkeys):
    for j, yk in enumerate(ykeys):
        if float(grid[j, i]) != cell(xk, yk): return "grid-cell-differs-from-bin-content"
        tot += float(grid[j, i])
# the grid holds exactly the weight that landed in regular (non-flow) cells
want = 0.0
subs = list(h.bins.values()) if hasattr(h, "bins") else list(h.values)
for sub in subs:
    inner = list(sub.bins.values()) if hasattr(sub, "bins") else list(sub.values)
    for g in inner: want += g.entries
if tot != want: return "grid-total-differs-from-in-range-weight"
"""
    return Harness(f"C13/grid-numpy/{name}", [("x1", "float"), ("y1", "float"), ("x2", "float"), ("y2", "float")], pre, body,
                   timeout=timeout, setup=C13_SETUP + f"MK = lambda: {expr}\n", tree=expr,
                   bounds="2 symbolic (x, y) records with unit weights; get_2dgrid/prepare_2dgrid through the real numpy (cell contents stay concrete)")


def ranges_grid(name, timeout=120):
    """xy_ranges_grid / x_lim / y_lim of the 2-D plotting mix-ins (real numpy; unit weights keep the cells concrete)"""
    expr, rng = GRID_TREES[name]
    pre = " and ".join(rng.format(v=v) for v in ("x1", "y1", "x2", "y2"))
    body = """
h = fresh(MK, 1)[0]
recs = [(x1, y1, None, 0.0), (x2, y2, None, 0.0)]
for r in recs: h.fill(r)
def cells(hh):
    return dict(hh.bins) if hasattr(hh, "bins") and isinstance(hh.bins, dict) else dict(enumerate(hh.values))
inner = 0.0
for sub in cells(h).values():
    for g in cells(sub).values(): inner += g.entries
if inner == 0.0: return ""
xr, yr, grid = h.xy_ranges_grid()
xl, yl = h.x_lim(), h.y_lim()
if grid.shape != (len(yr) - 1, len(xr) - 1): return "grid-shape-vs-ranges"
if float(grid.sum()) != inner: return "grid-total-differs-from-in-range-weight"
for (x, y, _, _) in recs:
    # a record that landed in a regular cell lies inside the reported limits and inside the reported ranges
    inx = any(lo <= x < hi for lo, hi in zip(list(xr)[:-1], list(xr)[1:]))
    iny = any(lo <= y < hi for lo, hi in zip(list(yr)[:-1], list(yr)[1:]))
    landed = False
    for xk, sub in cells(h).items():
        lo, hi = h.range(xk)
        if lo <= x < hi:
            for yk, g in cells(sub).items():
                l2, h2 = sub.range(yk)
                if l2 <= y < h2 and g.entries > 0: landed = True
    if landed and not (inx and iny): return "filled-cell-outside-reported-ranges"
    if landed and not (xl[0] <= x <= xl[1] and yl[0] <= y <= yl[1]): return "filled-cell-outside-reported-limits"
"""
    return Harness(f"C13/ranges-grid/{name}", [("x1", "float"), ("y1", "float"), ("x2", "float"), ("y2", "float")], pre, body,
                   timeout=timeout, setup=C13_SETUP + f"MK = lambda: {expr}\n", tree=expr,
                   bounds="2 symbolic (x, y) records with unit weights; xy_ranges_grid / x_lim / y_lim through the real numpy")


def projections(name, timeout=120):
    expr, rng = GRID_TREES[name]
    pre = " and ".join(rng.format(v=v) for v in ("x1", "y1", "x2", "y2")) + " and w1 > 0.0 and w2 > 0.0"
    body = """
h = fresh(MK, 1)[0]
recs = [((x1, y1, None, 0.0), w1), ((x2, y2, None, 0.0), w2)]
for r, w in recs: h.fill(r, w)
px = h.project_on_x(); py = h.project_on_y()
def cells(hh):
    return dict(hh.bins) if hasattr(hh, "bins") and isinstance(hh.bins, dict) else dict(enumerate(hh.values))
cx, cy = cells(px), cells(py)
inner = 0.0
for xk, sub in cells(h).items():
    row = 0.0
    for yk, g in cells(sub).items():
        row = row + g.entries
        inner = inner + g.entries
    if (cx[xk].entries if xk in cx else 0.0) != row: return "x-projection-bin-differs-from-row-sum"
sx = 0.0
for g in cx.values(): sx = sx + g.entries
sy = 0.0
for g in cy.values(): sy = sy + g.entries
if sx != inner: return "x-projection-total-differs-from-in-range-weight"
if sy != inner: return "y-projection-total-differs-from-in-range-weight"
for yk, g in cy.items():
    col = 0.0
    for xk, sub in cells(h).items():
        c = cells(sub)
        if yk in c: col = col + c[yk].entries
    if g.entries != col: return "y-projection-bin-differs-from-column-sum"
"""
    return Harness(f"C13/projection/{name}", [("x1", "float"), ("y1", "float"), ("x2", "float"), ("y2", "float"), ("w1", "float"), ("w2", "float")],
                   pre, body, timeout=timeout, setup=C13_SETUP + f"MK = lambda: {expr}\n", tree=expr,
                   bounds="2 symbolic (x, y) records with symbolic positive weights; project_on_x / project_on_y vs the cells")


def categorize_views(timeout=60):
    body = """
h = fresh(MK, 1)[0]
cats = [sel(c1, "a", "b", "c"), sel(c2, "a", "b", "c"), sel(c3, "a", "b", "c")]
for c in cats: h.fill((0.0, 0.0, c, 0.0))
with NT():
    labels = list(h.bin_labels()); ents = aslist(h.bin_entries()); mpv = h.mpv; nb = h.n_bins
    sub = aslist(h.bin_entries(labels=["a", "zz"]))
if len(labels) != len(ents) or nb != len(labels): return "labels-vs-entries-length"
for l, e in zip(labels, ents):
    if h.bins[l].entries != e: return "entries-disagree-with-bins"
best = max(h.bins[l].entries for l in labels)
if h.bins[mpv].entries != best: return "mpv-is-not-a-most-probable-value"
if sub[0] != (h.bins["a"].entries if "a" in h.bins else 0.0) or sub[1] != 0.0: return "entries-for-requested-labels-wrong"
"""
    return Harness("C13/categorize", [("c1", "int"), ("c2", "int"), ("c3", "int")], "0 <= c1 <= 2 and 0 <= c2 <= 2 and 0 <= c3 <= 2",
                   body, timeout=timeout, setup=C13_SETUP + "MK = lambda: H.Categorize(qc)\n", tree="H.Categorize(qc)",
                   bounds="3 fills over categories a/b/c by symbolic selectors; bin_labels / bin_entries / mpv")


def harnesses(tier):
    import gen_C13_extra
    out = gen_C13_extra.harnesses(tier)
    for n, cfg in BIN_CFGS.items():
        if tier == "quick" and n == "8,0,2":
            continue
        num = cfg[0]
        # case split on the bins containing lo and hi (segments -1 .. num), one harness per pair: they run in parallel
        segs = [(i, j) for i in range(-1, num) for j in range(i, num + 1) if j >= 0]
        if tier == "quick":
            segs = [sg for k, sg in enumerate(segs) if n == "2,-1,1" or k % 3 == 0]
        for sg in segs:
            out.append(bin_views(n, cfg, seg=sg, timeout=120 if tier == "quick" else 400))
    out.append(sparse_views(timeout=120 if tier == "quick" else 400))
    out.append(list_views("CentrallyBin", "H.CentrallyBin([1.0, 2.0, 4.0], qx)", [1.0, 2.0, 4.0], timeout=120 if tier == "quick" else 400))
    out.append(list_views("IrregularlyBin", "H.IrregularlyBin([0.0, 1.0, 2.0], qx)", [0.0, 1.0, 2.0], timeout=120 if tier == "quick" else 400))
    out.append(grid2d())
    for n in GRID_TREES:
        out.append(grid_numpy(n))
    for n in ("Bin2x2", "Sparse2D"):
        out.append(projections(n))
        out.append(ranges_grid(n))
    out.append(categorize_views())
    return out


def pre_checks(tier, workdir):
    import kernels

    return kernels.run_C13(tier, workdir)
