"""C07 in-place merge (+=) agrees with pure merge (+)."""
import catalogue as cat
from gen_common import SETUP, SPECIAL_XY, bounds_text, data_params
from run import Harness

ASSUMPTIONS = ["a and its twin a0 are filled with the same symbolic stream; b with another; n <= 1..2 records each"]


def _setup(tree):
    return SETUP + f"MK = lambda: {tree.expr}\n"


def iadd(tree, na, nb, mode="real", timeout=60, fixy=False, special=False, reload_b=False):
    pa, prea, codea = data_params(tree, na, mode=mode, prefix="a", fix_leaf_y=fixy, special=special)
    pb, preb, codeb = data_params(tree, nb, mode=mode, prefix="b", fix_leaf_y=fixy, special=special)
    pe, pree, codee = data_params(tree, 1, mode=mode, prefix="e", fix_leaf_y=fixy)
    body = codea + codeb + codee + """
a, a0, b = fresh(MK, 3)
for d in adata: a.fill(d); a0.fill(d)
for d in bdata: b.fill(d)
""" + ("b = Factory.fromJson(J(b))   # the right operand arrives as JSON (fillsparksql does self += fromJson(...))\n" if reload_b else "") + """
expected = J(a0 + b)
jb = J(b)
ida = id(a)
a += b
if id(a) != ida: return "not-same-object"
if not jeq(J(a), expected): return "iadd-differs-from-add"
if not jeq(J(b), jb): return "right-operand-changed"
ja = J(a)
""" + ("""
b.fill(edata[0])
if not jeq(J(a), ja): return "later-fill-of-b-leaks-into-a"
""" if not reload_b else """
c2 = b + b
if not jeq(J(a), ja): return "later-merge-of-b-leaks-into-a"
""") + """
jb = J(b)
a.fill(edata[0])
if not jeq(J(b), jb): return "later-fill-of-a-leaks-into-b"
"""
    return Harness(
        f"C07/iadd/{tree.name}/a{na}b{nb}/{mode}" + ("-fixy" if fixy else "") + ("-s" if special else "") + ("-reloaded" if reload_b else ""), pa + pb + pe, " and ".join(prea + preb + pree), body, mode=mode,
        timeout=timeout, setup=_setup(tree), tree=tree.expr, special=SPECIAL_XY if special else None,
        bounds=bounds_text(tree, na + nb + 1, right_operand="reloaded from JSON" if reload_b else "live", data="finite reals + nan/+-inf" if special else "finite reals", a_records=na, b_records=nb, continuation="one symbolic fill of b, then of a"),
    )


def harnesses(tier):
    out = []
    for t in cat.unit() + cat.extra_unit():
        out.append(iadd(t, 1, 1, reload_b=True))
        if (t.uses_x or t.uses_y) and not t.cmp_only:
            out.append(iadd(t, 1, 1, special=True, timeout=90))
    for t in cat.extra_unit():
        out.append(iadd(t, 1, 1, timeout=90))
    for t in cat.unit():
        out.append(iadd(t, 1, 1))
        out.append(iadd(t, 0, 1, timeout=40))
        out.append(iadd(t, 1, 0, timeout=40))
        if t.cmp_only:
            out.append(iadd(t, 1, 1, mode="ieee"))
    slots = cat.slot()
    if tier == "thorough":
        slots = slots[::1]  # thorough tier is sized by wall time (see DESIGN.md 7.1)
    if tier == "quick":
        slots = [t for i, t in enumerate(slots) if i % 4 == 2]
    for t in slots + cat.deep():
        out.append(iadd(t, 1, 1, timeout=60 if tier == "quick" else 240, fixy=(tier == "quick")))
    if tier == "thorough":
        for t in cat.unit():
            out.append(iadd(t, 2, 2, timeout=240))
    return out
