"""C07 in-place merge (+=) agrees with pure merge (+)."""
import catalogue as cat
from gen_common import SETUP, SPECIAL_XY, bounds_text, data_params
from run import Harness

ASSUMPTIONS = ["a and its twin a0 are filled with the same symbolic stream; b with another; n <= 1..2 records each"]


def _setup(tree):
    return SETUP + f"MK = lambda: {tree.expr}\n"


def iadd(tree, na, nb, mode="real", timeout=60, fixy=False, special=False, reload_b=False, reload_a=False):
    pa, prea, codea = data_params(tree, na, mode=mode, prefix="a", fix_leaf_y=fixy, special=special)
    pb, preb, codeb = data_params(tree, nb, mode=mode, prefix="b", fix_leaf_y=fixy, special=special)
    pe, pree, codee = data_params(tree, 1, mode=mode, prefix="e", fix_leaf_y=fixy)
    body = codea + codeb + codee + """
a, a0, b = fresh(MK, 3)
for d in adata: a.fill(d); a0.fill(d)
for d in bdata: b.fill(d)
""" + ("b = Factory.fromJson(J(b))   # the right operand arrives as JSON (fillsparksql does self += fromJson(...))\n" if reload_b else "") + ("a = Factory.fromJson(J(a))   # the left operand is a reloaded checkpoint, the right one a live partial\n" if reload_a else "") + """
expected = J(a0 + b)
jb = J(b)
ida = id(a)
a += b
if id(a) != ida: return "not-same-object"
if not jeq(J(a), expected): return "iadd-differs-from-add"
if not jeq(J(b), jb): return "right-operand-changed"
ja = J(a)
""" + ("""
b.fill(edata[0])
if not jeq(J(a), ja): return "later-fill-of-b-leaks-into-a"
""" if not reload_b else """
c2 = b + b
if not jeq(J(a), ja): return "later-merge-of-b-leaks-into-a"
""") + """
jb = J(b)
""" + ("""a.fill(edata[0])
if not jeq(J(b), jb): return "later-fill-of-a-leaks-into-b"
""" if not reload_a else """exp2 = J(Factory.fromJson(J(a)) + b)
a += b
if not jeq(J(b), jb): return "second-merge-changed-right-operand"
if not jeq(J(a), exp2): return "second-iadd-differs-from-add"
""")
    return Harness(
        f"C07/iadd/{tree.name}/a{na}b{nb}/{mode}" + ("-fixy" if fixy else "") + ("-s" if special else "") + ("-reloaded" if reload_b else "") + ("-reloaded-left" if reload_a else ""), pa + pb + pe, " and ".join(prea + preb + pree), body, mode=mode,
        timeout=timeout, setup=_setup(tree), tree=tree.expr, special=SPECIAL_XY if special else None,
        bounds=bounds_text(tree, na + nb + 1, right_operand="reloaded from JSON" if reload_b else "live", left_operand="reloaded from JSON" if reload_a else "live", data="finite reals + nan/+-inf" if special else "finite reals", a_records=na, b_records=nb, continuation="one symbolic fill of b, then of a"),
    )


def iadd_reloaded_left(tree, timeout=60, fixy=True):
    pb, preb, codeb = data_params(tree, 1, mode="real", prefix="b", fix_leaf_y=fixy)
    body = codeb + """
with NT():
    e1 = Factory.fromJson(J(MK())); e2 = Factory.fromJson(J(MK())); empty_doc = J(MK())
b, ref = fresh(MK, 2)
for d in bdata: b.fill(d)
jb = J(b)
e1 += b
if not jeq(J(e1), J(ref + b)): return "iadd-into-reloaded-empty-differs-from-add"
if not jeq(J(b), jb): return "right-operand-changed"
if not jeq(J(e2), empty_doc): return "in-place-merge-into-one-reloaded-container-changed-another-reloaded-container"
with NT():
    e3 = Factory.fromJson(empty_doc)
    later_empty = jeq(J(e3), empty_doc)
if not later_empty: return "a-later-reload-of-an-empty-document-is-not-empty"
e1 += b
if not jeq(J(e1), J(ref + b + b)): return "second-iadd-into-reloaded-differs"
"""
    return Harness(f"C07/iadd-reloaded-left/{tree.name}", pb, " and ".join(preb), body, timeout=timeout, setup=_setup(tree), tree=tree.expr,
                   bounds=bounds_text(tree, 1, left_operand="empty container reloaded from JSON (two independent reloads + a later one)"))


def lookalike_history(tree, timeout=60, fixy=True):
    """history: the same operations have already been applied, in this process, to a look-alike tree whose quantity functions
    differ only in which field they read (same code shape, unnamed lambdas)"""
    import re
    swapped = re.sub(r"\bqx\b", "QX2", tree.expr)
    swapped = re.sub(r"\bqy\b", "QY2", swapped)
    pa, prea, codea = data_params(tree, 1, mode="real", prefix="a", fix_leaf_y=fixy)
    pb, preb, codeb = data_params(tree, 1, mode="real", prefix="b", fix_leaf_y=fixy)
    pe, pree, codee = data_params(tree, 1, mode="real", prefix="e", fix_leaf_y=fixy)
    body = codea + codeb + codee + """
with NT():   # the look-alike's history (concrete)
    u, v = MK2(), MK2()
    u.fill((0.25, 1.25, "a", 1.0)); v.fill((1.5, -0.5, "b", 2.5))
    u += v
    u.fill((1.5, 0.5, "b", 2.5)); w_ = u + v; w_.fill((0.25, 0.5, "a", 1.0))
a, a0, b = fresh(MK, 3)
for d in adata: a.fill(d); a0.fill(d)
for d in bdata: b.fill(d)
a += b
s = a0 + b
if not jeq(J(a), J(s)): return "iadd-differs-from-add"
for d in (bdata[0], edata[0], adata[0]):
    a.fill(d); s.fill(d)
    ref = MK()
    ref._checkForCrossReferences()
if not jeq(J(a), J(s)): return "continuation-after-iadd-differs-from-continuation-after-add"
r = fresh(MK, 1)[0]
for d in (adata[0], bdata[0], bdata[0], edata[0], adata[0]): r.fill(d)
if not jeq(J(a), J(r)): return "continuation-after-iadd-differs-from-filling-everything"
"""
    return Harness(f"C07/lookalike-history/{tree.name}", pa + pb + pe, " and ".join(prea + preb + pree), body, timeout=timeout,
                   setup=_setup(tree) + f"QX2 = lambda d: d[1]\nQY2 = lambda d: d[0]\nMK2 = lambda: {swapped}\n", tree=tree.expr,
                   bounds=bounds_text(tree, 3, history="a look-alike tree (fields swapped) went through fill, +=, +, fill before"))


# collections and binned containers over the leaves whose merge is not a plain sum (extrema, bags)
MIXED = [
    ("Label(Minimize,Minimize)", "H.Label(lo=H.Minimize(qx), hi=H.Minimize(qy))"),
    ("UntypedLabel(Minimize,Maximize)", "H.UntypedLabel(lo=H.Minimize(qx), hi=H.Maximize(qx))"),
    ("UntypedLabel(Bag,Minimize)", 'H.UntypedLabel(bag=H.Bag(qn, "N"), lo=H.Minimize(qx))'),
    ("Index(Minimize,Minimize)", "H.Index(H.Minimize(qx), H.Minimize(qy))"),
    ("Index(Bag,Bag)", 'H.Index(H.Bag(qn, "N"), H.Bag(qn, "N"))'),
    ("Branch(Maximize,Bag)", 'H.Branch(H.Maximize(qx), H.Bag(qn, "N"))'),
    ("Stack>Minimize", "H.Stack([0.0, 1.0], qx, H.Minimize(qy))"),
    ("Stack>Bag", 'H.Stack([0.0, 1.0], qx, H.Bag(qn, "N"))'),
    ("IrregularlyBin>Bag", 'H.IrregularlyBin([0.0, 1.0], qx, H.Bag(qn, "N"))'),
    ("IrregularlyBin>Maximize", "H.IrregularlyBin([0.0, 1.0], qx, H.Maximize(qy))"),
    ("CentrallyBin>Maximize", "H.CentrallyBin([0.0, 2.0], qx, H.Maximize(qy))"),
    ("CentrallyBin>Bag", 'H.CentrallyBin([0.0, 2.0], qx, H.Bag(qn, "N"))'),
]


def reordered_keys(kind, timeout=60):
    """both operands have the same key set, written in a different order (keyword order, or a JSON producer that sorts keys)"""
    mk = {"Label": ("H.Label(p=H.Sum(qx), q=H.Sum(qy), r=H.Sum(qx))", "H.Label(r=H.Sum(qx), q=H.Sum(qy), p=H.Sum(qx))"),
          "UntypedLabel": ("H.UntypedLabel(p=H.Sum(qx), q=H.Sum(qy), r=H.Bin(2, 0.0, 2.0, qx))", "H.UntypedLabel(r=H.Bin(2, 0.0, 2.0, qx), q=H.Sum(qy), p=H.Sum(qx))")}[kind]
    body = """
data = [(x1, y1, "a", 1.0), (x2, y2, "b", 2.5)]
with NT():
    a = MKA(); a0 = MKA(); b = MKB(); bs = MKB()
    for t in (a, a0, b, bs): t._checkForCrossReferences()
a.fill(data[0]); a0.fill(data[0]); b.fill(data[1]); bs.fill(data[1])
if reload: b = Factory.fromJson(J(b))
expected = J(a0 + b)
want_p = a0.get("p").sum + bs.get("p").sum; want_q = a0.get("q").sum + bs.get("q").sum
jb = J(b)
a += b
if not jeq(J(a), expected): return "iadd-of-reordered-keys-differs-from-add"
if a.get("p").sum != want_p or a.get("q").sum != want_q: return "children-merged-with-the-wrong-partner"
if not jeq(J(b), jb): return "right-operand-changed"
"""
    return Harness(f"C07/reordered-keys/{kind}", [("x1", "float"), ("y1", "float"), ("x2", "float"), ("y2", "float"), ("reload", "bool")], "True", body,
                   timeout=timeout, setup=SETUP + f"MKA = lambda: {mk[0]}\nMKB = lambda: {mk[1]}\n", tree=mk[0] + " += " + mk[1],
                   bounds="one symbolic record each; right operand live or reloaded from JSON (by selector); same key set in reverse order")


def harnesses(tier):
    out = [reordered_keys("Label"), reordered_keys("UntypedLabel")]
    for n, e in MIXED:
        t = cat.Tree(n, e)
        out.append(iadd(t, 0, 1, timeout=40))
        out.append(iadd(t, 1, 1, reload_a=True))
        if tier == "thorough":
            out.append(iadd(t, 1, 1)); out.append(iadd(t, 1, 1, reload_b=True)); out.append(iadd(t, 1, 2))
    for t in cat.unit() + cat.extra_unit():
        out.append(iadd(t, 1, 1, reload_a=True))
    for t in cat.unit() + cat.extra_unit():
        out.append(iadd(t, 1, 1, reload_b=True))
        if (t.uses_x or t.uses_y) and not t.cmp_only:
            out.append(iadd(t, 1, 1, special=True, timeout=90))
    for t in cat.extra_unit():
        out.append(iadd(t, 1, 1, timeout=90))
    leafy = cat.slot(children=["Sum", "Bag", "Minimize"], parents=["Categorize", "SparselyBin", "Label", "Bin"])
    for t in cat.unit() + cat.extra_unit() + cat.deep()[:5] + leafy:
        out.append(iadd_reloaded_left(t))
        if t.uses_x or t.uses_y:
            out.append(lookalike_history(t))
    for t in cat.unit():
        out.append(iadd(t, 1, 1))
        out.append(iadd(t, 0, 1, timeout=40))
        out.append(iadd(t, 1, 0, timeout=40))
        if t.cmp_only:
            out.append(iadd(t, 1, 1, mode="ieee"))
    slots = cat.slot()
    if tier == "thorough":
        slots = slots[::1]  # thorough tier is sized by wall time (see DESIGN.md 7.1)
    if tier == "quick":
        slots = [t for i, t in enumerate(slots) if i % 4 == 2]
    for t in slots + cat.deep():
        out.append(iadd(t, 1, 1, timeout=60 if tier == "quick" else 240, fixy=(tier == "quick")))
    if tier == "thorough":
        for t in cat.unit():
            out.append(iadd(t, 2, 2, timeout=240))
    return out
