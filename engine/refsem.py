"""Reference semantics of the Histogrammar primitives, written from the specification text
(docs/ + class docstrings), independent of the fill()/__add__ code paths.

ref_state(node, stream)  -> canonical state the *specification* assigns to `node` for the weighted
                            multiset `stream` = [(datum, weight)] (only weight > 0 counts)
real_state(node)         -> the same canonical structure read from the public attributes of a real node
same(a, b)               -> structural equality, NaN equal to NaN (tolerant of rounding on replay)

Only the *parameters* of the real (empty) tree are read here (type, low/high/num, binWidth/origin,
centres, edges, thresholds, quantity functions); never its aggregated state.
Everything is plain Python so that it runs on symbolic values under CrossHair.
"""
import math

import vp

NAN = float("nan")


def _isnan(x):
    return isinstance(x, float) and math.isnan(x)


def same(a, b):
    if isinstance(a, (tuple, list)) and isinstance(b, (tuple, list)):
        if len(a) != len(b):
            return False
        for x, y in zip(a, b):
            if not same(x, y):
                return False
        return True
    if isinstance(a, dict) and isinstance(b, dict):
        if set(a.keys()) != set(b.keys()):
            return False
        for k in a:
            if not same(a[k], b[k]):
                return False
        return True
    if isinstance(a, str) or isinstance(b, str) or a is None or b is None:
        return a == b
    # numbers
    an, bn = _isnan(a), _isnan(b)
    if an or bn:
        return an and bn
    if vp.SYMBOLIC:
        return a == b
    return vp._close(a, b)


# ------------------------------------------------------------------ reading a real node
def real_state(h):
    t = h.name
    if t == "Count":
        return ("Count", h.entries)
    if t == "Sum":
        return ("Sum", h.entries, h.sum)
    if t == "Average":
        return ("Average", h.entries, h.mean)
    if t == "Deviate":
        return ("Deviate", h.entries, h.mean, h.variance)
    if t == "Minimize":
        return ("Minimize", h.entries, h.min)
    if t == "Maximize":
        return ("Maximize", h.entries, h.max)
    if t == "Bag":
        return ("Bag", h.entries, dict(h.values))
    if t == "Bin":
        return (
            "Bin",
            h.entries,
            [real_state(v) for v in h.values],
            real_state(h.underflow),
            real_state(h.overflow),
            real_state(h.nanflow),
        )
    if t == "SparselyBin":
        return ("SparselyBin", h.entries, {k: real_state(v) for k, v in h.bins.items()}, real_state(h.nanflow))
    if t in ("CentrallyBin", "IrregularlyBin", "Stack"):
        return (t, h.entries, [(c, real_state(v)) for c, v in h.bins], real_state(h.nanflow))
    if t == "Fraction":
        return ("Fraction", h.entries, real_state(h.numerator), real_state(h.denominator))
    if t == "Select":
        return ("Select", h.entries, real_state(h.cut))
    if t == "Categorize":
        return ("Categorize", h.entries, {k: real_state(v) for k, v in h.bins.items()})
    if t in ("Label", "UntypedLabel"):
        return (t, h.entries, {k: real_state(v) for k, v in h.pairs.items()})
    if t in ("Index", "Branch"):
        return (t, h.entries, [real_state(v) for v in h.values])
    raise NotImplementedError(t)


# ------------------------------------------------------------------ specification
def _total(stream):
    s = 0.0
    for _, w in stream:
        s = s + w
    return s


def _mean(qs):
    """Weighted mean per spec: NaN for no data or any NaN; infinities dominate; opposite infinities -> NaN."""
    tot = 0.0
    for _, w in qs:
        tot = tot + w
    if len(qs) == 0:
        return NAN
    hasnan = haspinf = hasminf = False
    for q, _ in qs:
        if _isnan(q):
            hasnan = True
        elif isinstance(q, float) and math.isinf(q):
            if q > 0:
                haspinf = True
            else:
                hasminf = True
    if hasnan or (haspinf and hasminf):
        return NAN
    if haspinf:
        return float("inf")
    if hasminf:
        return float("-inf")
    acc = 0.0
    for q, w in qs:
        acc = acc + w * q
    return acc / tot


def ref_state(h, stream):
    """stream: list of (datum, weight); pairs with weight <= 0 / NaN are ignored per spec."""
    stream = [(d, w) for d, w in stream if w > 0.0]
    t = h.name
    tot = _total(stream)
    if t == "Count":
        return ("Count", tot)
    if t in ("Sum", "Average", "Deviate", "Minimize", "Maximize"):
        qs = [(h.quantity(d), w) for d, w in stream]
        if t == "Sum":
            acc = 0.0
            for q, w in qs:
                acc = acc + w * q
            return ("Sum", tot, acc)
        if t == "Average":
            return ("Average", tot, _mean(qs))
        if t == "Deviate":
            m = _mean(qs)
            if len(qs) == 0 or _isnan(m) or math.isinf(m):
                return ("Deviate", tot, m, NAN)
            acc = 0.0
            for q, w in qs:
                acc = acc + w * (q - m) * (q - m)
            return ("Deviate", tot, m, acc / tot)
        best = NAN
        for q, _ in qs:
            if _isnan(q):
                continue
            if _isnan(best):
                best = q
            elif t == "Minimize" and q < best:
                best = q
            elif t == "Maximize" and q > best:
                best = q
        return (t, tot, best)
    if t == "Bag":
        vals = {}
        for d, w in stream:
            q = h.quantity(d)
            if h.range == "N":
                q = "nan" if _isnan(q) else q
            vals[q] = vals.get(q, 0.0) + w
        return ("Bag", tot, vals)
    if t == "Bin":
        num, low, high = len(h.values), h.low, h.high
        under, over, nan = [], [], []
        bins = [[] for _ in range(num)]
        for d, w in stream:
            q = h.quantity(d)
            if _isnan(q):
                nan.append((d, w))
            elif q < low:
                under.append((d, w))
            elif q >= high:
                over.append((d, w))
            else:
                # half-open interval i: low + i*(high-low)/num <= q < low + (i+1)*(high-low)/num,
                # written without division so that it is exact over the reals
                for i in range(num):
                    if i * (high - low) <= num * (q - low) and num * (q - low) < (i + 1) * (high - low):
                        bins[i].append((d, w))
                        break
        return (
            "Bin",
            tot,
            [ref_state(v, b) for v, b in zip(h.values, bins)],
            ref_state(h.underflow, under),
            ref_state(h.overflow, over),
            ref_state(h.nanflow, nan),
        )
    if t == "SparselyBin":
        nan = []
        groups = {}
        for d, w in stream:
            q = h.quantity(d)
            if _isnan(q):
                nan.append((d, w))
                continue
            # index i with origin + i*binWidth <= q < origin + (i+1)*binWidth; search a bounded window
            idx = None
            if isinstance(q, float) and math.isinf(q):  # saturation at the ends of the 64-bit index range
                idx = (2**63 - 1) if q > 0 else -(2**63 - 1)
            for i in range(-8, 8):
                if idx is not None:
                    break
                if i * h.binWidth <= q - h.origin and q - h.origin < (i + 1) * h.binWidth:
                    idx = i
                    break
            if idx is None:
                raise vp.HarnessSetupError("sparse reference window exceeded")
            groups.setdefault(idx, []).append((d, w))
        return ("SparselyBin", tot, {i: ref_state(h.value, g) for i, g in groups.items()}, ref_state(h.nanflow, nan))
    if t == "CentrallyBin":
        centers = [c for c, _ in h.bins]
        nan = []
        groups = [[] for _ in centers]
        for d, w in stream:
            q = h.quantity(d)
            if _isnan(q):
                nan.append((d, w))
                continue
            # nearest centre; a tie (exact midpoint) goes to the upper bin; +-inf to the outermost
            best = 0
            for i in range(1, len(centers)):
                if q >= (centers[i - 1] + centers[i]) / 2.0:  # at/above the midpoint: at least as close to i
                    best = i
            groups[best].append((d, w))
        return (
            "CentrallyBin",
            tot,
            [(c, ref_state(v, g)) for (c, v), g in zip(h.bins, groups)],
            ref_state(h.nanflow, nan),
        )
    if t == "IrregularlyBin":
        edges = [c for c, _ in h.bins]  # first is -inf
        nan = []
        groups = [[] for _ in edges]
        for d, w in stream:
            q = h.quantity(d)
            if _isnan(q):
                nan.append((d, w))
                continue
            k = 0
            for i in range(1, len(edges)):
                if q >= edges[i]:
                    k = i
            groups[k].append((d, w))
        return (
            "IrregularlyBin",
            tot,
            [(c, ref_state(v, g)) for (c, v), g in zip(h.bins, groups)],
            ref_state(h.nanflow, nan),
        )
    if t == "Stack":
        nan = [(d, w) for d, w in stream if _isnan(h.quantity(d))]
        rest = [(d, w) for d, w in stream if not _isnan(h.quantity(d))]
        out = []
        for c, v in h.bins:
            out.append((c, ref_state(v, [(d, w) for d, w in rest if h.quantity(d) >= c])))
        return ("Stack", tot, out, ref_state(h.nanflow, nan))
    if t == "Fraction":
        num = []
        for d, w in stream:
            f = h.quantity(d)
            f = (1.0 if f else 0.0) if isinstance(f, bool) else f
            if w * f > 0.0:
                num.append((d, w * f))
        return ("Fraction", tot, ref_state(h.numerator, num), ref_state(h.denominator, stream))
    if t == "Select":
        cut = []
        for d, w in stream:
            f = h.quantity(d)
            f = (1.0 if f else 0.0) if isinstance(f, bool) else f
            if w * f > 0.0:
                cut.append((d, w * f))
        return ("Select", tot, ref_state(h.cut, cut))
    if t == "Categorize":
        groups = {}
        for d, w in stream:
            q = h.quantity(d)
            if q is None or _isnan(q):
                q = "NaN"
            groups.setdefault(q, []).append((d, w))
        return ("Categorize", tot, {k: ref_state(h.value, g) for k, g in groups.items()})
    if t in ("Label", "UntypedLabel"):
        return (t, tot, {k: ref_state(v, stream) for k, v in h.pairs.items()})
    if t in ("Index", "Branch"):
        return (t, tot, [ref_state(v, stream) for v in h.values])
    raise NotImplementedError(t)
