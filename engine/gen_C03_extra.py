"""C03: vectorised fills interleaved with merges (state kept between successive batches must survive +, += and *)"""
import catalogue as cat
from gen_C03 import C03_SETUP
from gen_common import bounds_text, data_params
from run import Harness


def vec_history(tree, op, timeout=90, fixy=True):
    p, pre, code = data_params(tree, 4, mode="real", fix_leaf_y=False, cats=2)
    code = code.replace("None", '"c"')
    body = code + f"""
a, b, r = fresh(MK, 3)
with NPM():
    a.fill.numpy(columns(data[0:2]))
b.fill(data[2])
for d in data[0:3]: r.fill(d)
{ {"iadd": "a += b", "add": "a = a + b", "mul": "a = (a + b) * 1.0", "copy": "a += b; a = a.copy()", "json": "a += b; a2 = Factory.fromJson(J(a)); a = a"}[op] }
if not jeq(dropzero(J(a)), dropzero(J(r))): return "state-after-merge-differs-from-row-fill"
with NPM():
    a.fill.numpy(columns(data[3:4]))
r.fill(data[3])
if not jeq(dropzero(J(a)), dropzero(J(r))): return "vectorised-fill-after-merge-differs-from-row-fill"
"""
    return Harness(f"C03/history/{tree.name}/{op}", p, " and ".join(pre), body, timeout=timeout, setup=C03_SETUP + f"MK = lambda: {tree.expr}\n",
                   tree=tree.expr, bounds=bounds_text(tree, 4, history=f"fill.numpy(2 rows); b.fill(1 row); {op}; fill.numpy(1 row) -- compared with filling the 4 rows one by one"))


def harnesses(tier):
    out = []
    trees = [t for t in cat.unit() if t.name in ("Sum", "Average", "Deviate", "Minimize", "Maximize", "Bin", "Categorize", "Stack", "Label", "Branch")]
    trees += cat.extra_unit() + [t for t in cat.deep() if t.name in ("Profile", "ProfileErr", "SparselyProfile")]
    for t in trees:
        for op in (("iadd", "add") if tier == "quick" else ("iadd", "add", "mul", "copy")):
            out.append(vec_history(t, op, timeout=90 if tier == "quick" else 240))
    return out


BUF_SETUP = C03_SETUP + '''
import numpy as _rnp
BX = [[0.5, NAN, 1.0, -INF, 2.0, 0.0], [NAN, NAN, 0.5, 1.5, INF, -1.0], [0.0, 1.0, 2.0, 0.5, 1.5, -0.5], [INF, -INF, NAN, 1.0, 1.0, 0.0]]
BY = [[0.25, -0.5, NAN, 1.0, INF, 0.0], [1.0, 1.0, 1.0, NAN, 0.0, -INF], [0.0, 0.5, 1.0, 1.5, 2.0, 2.5], [NAN, 0.0, 1.0, NAN, -1.0, 2.0]]
BW = [[1.0, 2.0, 0.0, 0.5, 3.0, 1.0], [1.0, 1.0, 1.0, 1.0, 1.0, 1.0], [0.0, 0.0, 2.5, 0.0, 1.0, 0.0]]
'''


def buffers(tree, timeout=40):
    """real numpy, concrete batches with NaN/inf rows and zero weights: the caller's arrays must come back untouched and
    mean the same thing when they are used again (a fast path that masks rows in place is invisible to content checks
    of a single fill)"""
    body = """
k = sel(k, 0, 1, 2, 3); j = sel(j, 0, 1, 2)
with NT():
    res = ""
    x = _rnp.array(BX[k]); y = _rnp.array(BY[k]); c = _rnp.array(["a", "b", "a", "c", "b", "a"]); n = _rnp.array([0.0, 1.0, 2.0, 1.0, 0.0, 1.0])
    w = _rnp.array(BW[j])
    before = [a.copy() for a in (x, y, n, w)]
    cols = Cols((x, y, c, n))
    h1 = MK(); h1.fill.numpy(cols, w)
    for a, b in zip((x, y, n, w), before):
        if not _rnp.array_equal(a, b, equal_nan=True): res = res or "input-or-weight-array-modified"
    h2 = MK(); h2.fill.numpy(cols, w)
    ref = MK()
    for i in range(6): ref.fill((BX[k][i], BY[k][i], ["a", "b", "a", "c", "b", "a"][i], [0.0, 1.0, 2.0, 1.0, 0.0, 1.0][i]), BW[j][i])
    if not jclose(dropzero(h2.toJson()), dropzero(ref.toJson())): res = res or "reused-arrays-give-a-different-aggregate-than-row-fill"
    if not jclose(dropzero(h1.toJson()), dropzero(ref.toJson())): res = res or "numpy-fill-differs-from-row-fill"
    # the same weight array handed to two sibling trees (what a collection does with its children)
    both = H.Branch(MK(), MK()); both.fill.numpy(cols, w)
    if not jclose(dropzero(both.values[0].toJson()), dropzero(both.values[1].toJson())): res = res or "second-sibling-sees-different-weights-than-the-first"
if res: return res
"""
    return Harness(f"C03/buffers/{tree.name}", [("k", "int"), ("j", "int")], "0 <= k <= 3 and 0 <= j <= 2", body, timeout=timeout,
                   setup=BUF_SETUP + f"MK = lambda: {tree.expr}\n", tree=tree.expr,
                   bounds="real numpy, body untraced; 4 concrete 6-row batches (NaN, +-inf, edges) x 3 weight arrays by selector; arrays compared before/after, reused, and shared by two siblings")


def buffer_harnesses(tier):
    import gen_C03
    trees = [t for t in cat.unit() if gen_C03._fillable(t)] + [cat.Tree(nm, e) for nm, e in gen_C03.EXTRA] + cat.deep()
    if tier == "thorough":
        trees += [t for t in cat.slot() if gen_C03._fillable(t)]
    return [buffers(t) for t in trees]


EDGE_SETUP = C03_SETUP + '''
import numpy as _rnp
import probes
BINS = [(4, 0.0, 4.0), (10, 0.0, 1.0), (3, 0.0, 0.3), (7, -1.0 / 3.0, 2.0 / 3.0), (100, 1e6 + 0.1, 1e6 + 10.1), (5, -1e-3, 1e-3), (10, -5.0, 5.0), (6, 0.1, 0.7)]
SPARSE = [(1.0, 0.0), (0.5, 0.25), (0.1, 0.0), (1.0 / 3.0, 1e6 + 0.1), (2.0, -7.0)]
CENTRES = [[0.0, 2.0], [-0.1, 0.2, 0.3], [-3.0, 1.1, 5.2], [0.1, 0.7, 1.3, 2.9]]
ident = lambda a: a
'''


def edge_probes(kind, k, child, timeout=40):
    """real numpy, untraced: every edge of one configuration, its float neighbours and the midpoints, filled row by row and as
    one batch; children = Count (fast paths) or Sum (generic paths).  Sampled at the ulp level, where the real-number
    model of the symbolic harnesses is blind.  One harness per configuration and child kind, so that a recorded finding
    names exactly the configuration it is about."""
    mk = {
        "Bin": ("BINS", "H.Bin(cfg[0], cfg[1], cfg[2], ident, CH())", "[cfg[1] + i * (cfg[2] - cfg[1]) / cfg[0] for i in range(cfg[0] + 1)]"),
        "SparselyBin": ("SPARSE", "H.SparselyBin(cfg[0], ident, CH(), H.Count(), cfg[1])", "[cfg[1] + i * cfg[0] for i in range(-3, 4)]"),
        "CentrallyBin": ("CENTRES", "H.CentrallyBin(cfg, ident, CH())", "cfg + [(a + b) / 2.0 for a, b in zip(cfg, cfg[1:])]"),
        "IrregularlyBin": ("CENTRES", "H.IrregularlyBin(cfg, ident, CH())", "cfg"),
        "Stack": ("CENTRES", "H.Stack(cfg, ident, CH())", "cfg"),
    }[kind]
    body = f"""
order = sel(order, 0, 1)
with NT():
    cfg = {mk[0]}[{k}]
    CH = [lambda: H.Count(), lambda: H.Sum(ident)][{0 if child == "Count" else 1}]
    xs = probes.edge_probes({mk[2]})
    if order == 1: xs = xs[::-1]
    a = {mk[1]}; b = {mk[1]}
    for x in xs: a.fill(x)
    b.fill.numpy(_rnp.array(xs))
    ja, jb = dropzero(a.toJson()), dropzero(b.toJson())
    res = ""
    if not jclose(ja, jb):
        bad = [x for x in sorted(xs) if not jclose(dropzero(_one({mk[1]!r}, cfg, CH, x, False)), dropzero(_one({mk[1]!r}, cfg, CH, x, True)))]
        res = "edge-value-binned-differently-by-fill.numpy:x=%r" % (bad[:1] or ["?"])[0]
if res: return res
"""
    setup = EDGE_SETUP + '''
def _one(expr, cfg, CH, x, vec):
    h = eval(expr)
    if vec: h.fill.numpy(_rnp.array([x]))
    else: h.fill(x)
    return h.toJson()
'''
    cfgs = {"BINS": EDGE_BINS, "SPARSE": EDGE_SPARSE, "CENTRES": EDGE_CENTRES}[mk[0]]
    return Harness(f"C03/edge-probes/{kind}/{cfgs[k]!r}/{child}".replace(" ", ""), [("order", "int")], "0 <= order <= 1", body, timeout=timeout, setup=setup,
                   tree=mk[1], bounds=f"configuration {cfgs[k]!r}, children {child}; data = every edge, +1/-1/-2 ulp, midpoints, ascending or descending (concrete, real numpy)")


EDGE_BINS = [(4, 0.0, 4.0), (10, 0.0, 1.0), (3, 0.0, 0.3), (7, -1.0 / 3.0, 2.0 / 3.0), (100, 1e6 + 0.1, 1e6 + 10.1), (5, -1e-3, 1e-3), (10, -5.0, 5.0), (6, 0.1, 0.7)]
EDGE_SPARSE = [(1.0, 0.0), (0.5, 0.25), (0.1, 0.0), (1.0 / 3.0, 1e6 + 0.1), (2.0, -7.0)]
EDGE_CENTRES = [[0.0, 2.0], [-0.1, 0.2, 0.3], [-3.0, 1.1, 5.2], [0.1, 0.7, 1.3, 2.9]]


def edge_harnesses(tier):
    out = []
    for kind, cfgs in (("Bin", EDGE_BINS), ("SparselyBin", EDGE_SPARSE), ("CentrallyBin", EDGE_CENTRES), ("IrregularlyBin", EDGE_CENTRES), ("Stack", EDGE_CENTRES)):
        for k in range(len(cfgs)):
            for child in ("Count", "Sum"):
                out.append(edge_probes(kind, k, child))
    return out
