"""C03: vectorised fills interleaved with merges (state kept between successive batches must survive +, += and *)"""
import catalogue as cat
from gen_C03 import C03_SETUP
from gen_common import bounds_text, data_params
from run import Harness


def vec_history(tree, op, timeout=90, fixy=True):
    p, pre, code = data_params(tree, 4, mode="real", fix_leaf_y=False, cats=2)
    code = code.replace("None", '"c"')
    body = code + f"""
a, b, r = fresh(MK, 3)
with NPM():
    a.fill.numpy(columns(data[0:2]))
b.fill(data[2])
for d in data[0:3]: r.fill(d)
{ {"iadd": "a += b", "add": "a = a + b", "mul": "a = (a + b) * 1.0", "copy": "a += b; a = a.copy()", "json": "a += b; a2 = Factory.fromJson(J(a)); a = a"}[op] }
if not jeq(dropzero(J(a)), dropzero(J(r))): return "state-after-merge-differs-from-row-fill"
with NPM():
    a.fill.numpy(columns(data[3:4]))
r.fill(data[3])
if not jeq(dropzero(J(a)), dropzero(J(r))): return "vectorised-fill-after-merge-differs-from-row-fill"
"""
    return Harness(f"C03/history/{tree.name}/{op}", p, " and ".join(pre), body, timeout=timeout, setup=C03_SETUP + f"MK = lambda: {tree.expr}\n",
                   tree=tree.expr, bounds=bounds_text(tree, 4, history=f"fill.numpy(2 rows); b.fill(1 row); {op}; fill.numpy(1 row) -- compared with filling the 4 rows one by one"))


def harnesses(tier):
    out = []
    trees = [t for t in cat.unit() if t.name in ("Sum", "Average", "Deviate", "Minimize", "Maximize", "Bin", "Categorize", "Stack", "Label", "Branch")]
    trees += cat.extra_unit() + [t for t in cat.deep() if t.name in ("Profile", "ProfileErr", "SparselyProfile")]
    for t in trees:
        for op in (("iadd", "add") if tier == "quick" else ("iadd", "add", "mul", "copy")):
            out.append(vec_history(t, op, timeout=90 if tier == "quick" else 240))
    return out
