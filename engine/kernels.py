"""Kernel obligations (E2): IEEE-754 behaviour of the routing kernels, for all Float64 x, per concrete configuration.

Each obligation is one SMT query (negated property; unsat = holds for every double, sat = concrete x, which is
replayed against the real method before it is reported).  Encodings are regenerated from /repo on every run.
"""
import json
import math
import os
import time

import kenc
from kenc import AND, B, FP, NOT, OR, Kernel, Unsupported, bt, lit


def _H():
    import histogrammar as H

    return H


IDENT = "lambda x: x"

# numeric configurations (dyadic, non-dyadic, negative / large offsets, one bin)
BIN_CONFIGS = [
    (4, 0.0, 4.0), (2, 0.0, 2.0), (10, 0.0, 1.0), (3, 0.0, 0.3), (7, -1.0 / 3.0, 2.0 / 3.0), (1, -1.0, 1.0),
    (100, 1e6 + 0.1, 1e6 + 10.1), (5, -1e-3, 1e-3), (2, -0.3, -0.09999999999999998), (10, -5.0, 5.0), (6, 0.1, 0.7),
]
SPARSE_CONFIGS = [(1.0, 0.0), (0.5, 0.25), (0.1, 0.0), (1.0 / 3.0, 1e6 + 0.1), (2.0, -7.0), (1e-3, 0.0)]
CENTERS = [[0.0, 2.0], [1.0, 2.0, 4.0], [-0.1, 0.2, 0.3], [-1e6, 0.0, 1e6], [-3.0, 1.1, 5.2], [0.1, 0.7, 1.3, 2.9]]
EDGES = [[0.0, 1.0], [0.0], [-0.1, 0.2, 0.3], [-1e6, 0.0, 1e-6, 1e6]]


def _query(name, decls, assertion, workdir, tlimit):
    script = kenc.smt_script(decls, [assertion])
    path = os.path.join(workdir, "k_%s.smt2" % "".join(c if c.isalnum() else "_" for c in name))
    r = kenc.solve(script, path, decls, tlimit=tlimit)
    r["id"] = name
    return r


def _bin_kernel(num, low, high):
    H = _H()
    h = H.Bin(num, low, high, eval(IDENT))
    k = Kernel(H.Bin, h, {"x": FP("x")})
    return h, k


def _patch_quantity(k):
    orig = k.ev_Call

    def ev_Call(node, env, guard):
        import ast

        if ast.unparse(node.func) == "self.quantity":
            return [(guard, k.symbols["x"])]
        return orig(node, env, guard)

    k.ev_Call = ev_Call


def _fill_events(k):
    """symbolically execute fill(datum, 1.0); returns (fill events, subscript events, raises)"""
    k.events, k.raises = [], []
    fn = k.methods["fill"]
    local = {"self": k.selfobj, "datum": "DATUM", "weight": 1.0}
    k.block(fn.body, local, True)
    fills = [(g, t) for g, t, i, n in k.events if t.startswith("fill:")]
    subs = [(g, i, n) for g, t, i, n in k.events if t.startswith("subscript:")]
    return fills, subs, list(k.raises)


def _exactly_one_violated(guards):
    none = NOT(OR(*guards))
    two = []
    for i in range(len(guards)):
        for j in range(i + 1, len(guards)):
            two.append(AND(guards[i], guards[j]))
    return OR(none, *two)


def obligations_fill(cls_name, cfg_name, h, k, workdir, tlimit, replay):
    """C05(a): for every double x, fill routes to exactly one target, indexes are in range, nothing raises."""
    out = []
    try:
        fills, subs, raises = _fill_events(k)
    except Unsupported as e:
        return [{"id": "%s/%s/encode" % (cls_name, cfg_name), "status": "unknown", "detail": "unsupported: %s" % e}]
    obs = []
    bad_route = _exactly_one_violated([g for g, _ in fills])
    obs.append(("exactly-one-target", bad_route))
    for n, (g, idx, ln) in enumerate(subs):
        if isinstance(idx, FP):
            oob = OR(B("(fp.lt %s %s)" % (idx.t, lit(0.0))), B("(fp.geq %s %s)" % (idx.t, lit(float(ln)))))
            obs.append(("index-in-range-%d" % n, AND(g, oob)))
    if raises:
        obs.append(("no-exception", OR(*[g for g, _ in raises])))
    for oname, neg in obs:
        name = "%s/%s/%s" % (cls_name, cfg_name, oname)
        if neg is False:
            out.append({"id": name, "status": "unsat", "detail": "trivially unsatisfiable after constant folding", "time_s": 0, "per_solver": {}})
            continue
        r = _query(name, ["x"], bt(neg), workdir, tlimit)
        if r["status"] == "sat":
            x = r["model"].get("x")
            r["replay"] = replay(h, x)
        out.append(r)
    return out


def replay_fill(h, x):
    """run the real fill on a fresh copy with the solver's x; report what happened"""
    if x is None:
        return {"reproduced": False, "detail": "no model value"}
    g = h.zero()
    try:
        g.fill(x)
    except Exception as e:  # noqa: BLE001
        return {"reproduced": True, "x": repr(x), "detail": "fill raised %s: %s" % (type(e).__name__, e)}
    parts = _parts(g)
    tot = sum(parts)
    nonzero = sum(1 for p in parts if p != 0.0)
    if nonzero != 1 or tot != 1.0 or g.entries != 1.0:
        return {"reproduced": True, "x": repr(x), "detail": "datum landed in %d targets (entries %r, parts %r)" % (nonzero, g.entries, parts)}
    return {"reproduced": False, "x": repr(x), "detail": "real fill routed the datum to exactly one target"}


def _parts(g):
    t = g.name
    if t == "Bin":
        return [v.entries for v in g.values] + [g.underflow.entries, g.overflow.entries, g.nanflow.entries]
    if t == "SparselyBin":
        return [v.entries for v in g.bins.values()] + [g.nanflow.entries]
    if t in ("CentrallyBin", "IrregularlyBin"):
        return [v.entries for c, v in g.bins] + [g.nanflow.entries]
    if t == "Stack":
        return [g.bins[0][1].entries, g.nanflow.entries]
    raise NotImplementedError(t)


# ----------------------------------------------------------------------------- Bin routing semantics (C02)
def obligations_bin_semantics(cfg_name, num, low, high, workdir, tlimit):
    H = _H()
    h = H.Bin(num, low, high, eval(IDENT))
    out = []

    def method(name, sym):
        k = Kernel(H.Bin, h, {})
        k.events, k.raises = [], []
        return k.call_method(name, [], {}, True) if False else _call(k, name, sym)

    def _call(k, name, sym):
        import ast

        k.events, k.raises = [], []
        env = {"self": h, "x": sym}
        return k.call_method(name, [ast.Name("x", ast.Load())], env, True), list(k.raises)

    try:
        x, y = FP("x"), FP("y")
        ux, _ = _call(Kernel(H.Bin, h, {}), "under", x)
        ox, _ = _call(Kernel(H.Bin, h, {}), "over", x)
        nx, _ = _call(Kernel(H.Bin, h, {}), "nan", x)
        bx, rx = _call(Kernel(H.Bin, h, {}), "bin", x)
        by, ry = _call(Kernel(H.Bin, h, {}), "bin", y)
    except Unsupported as e:
        return [{"id": "Bin/%s/semantics-encode" % cfg_name, "status": "unknown", "detail": "unsupported: %s" % e}]

    def as_bool(outs):
        return OR(*[AND(g, v if isinstance(v, (B, bool)) else v) for g, v in outs])

    U, O, N = as_bool(ux), as_bool(ox), as_bool(nx)
    xl = B("(fp.lt x %s)" % lit(low))
    xh = B("(fp.geq x %s)" % lit(high))
    xn = B("(fp.isNaN x)")
    obs = [
        ("under-iff-x-lt-low", OR(AND(U, NOT(xl)), AND(NOT(U), xl))),
        ("over-iff-x-ge-high", OR(AND(O, NOT(xh)), AND(NOT(O), xh))),
        ("nan-iff-isnan", OR(AND(N, NOT(xn)), AND(NOT(N), xn))),
    ]
    # in-range index outcomes (symbolic integral floats)
    ix = [(g, v) for g, v in bx if isinstance(v, FP)]
    iy = [(g, v) for g, v in by if isinstance(v, FP)]
    mono = []
    for g1, v1 in ix:
        for g2, v2 in iy:
            mono.append(AND(g1, g2, B("(fp.leq x y)"), B("(fp.gt %s %s)" % (v1.t, v2.t))))
    obs.append(("index-monotone", OR(*mono)))
    obs.append(("index-of-low-is-0", OR(*[AND(g, B("(fp.eq x %s)" % lit(low)), NOT(B("(fp.eq %s %s)" % (v.t, lit(0.0))))) for g, v in ix])))
    # out-of-range values never get an index >= 0
    outr = [AND(g, OR(xl, xh, xn)) for g, v in ix]
    obs.append(("no-index-outside-range", OR(*outr)))
    # the documented index formula floor(num*(x-low)/(high-low)), evaluated in IEEE double arithmetic (what the
    # vectorised path computes), clamped to the last bin: the scalar kernel must return exactly that for every in-range x
    ref = "(fp.roundToIntegral RTN (fp.div RNE (fp.mul RNE %s (fp.sub RNE x %s)) %s))" % (lit(float(num)), lit(low), lit(high - low))
    refc = "(ite (fp.geq %s %s) %s %s)" % (ref, lit(float(num)), lit(float(num - 1)), ref)
    obs.append(("index-equals-documented-formula", OR(*[AND(g, B("(not (fp.eq %s %s))" % (v.t, refc))) for g, v in ix])))
    for oname, neg in obs:
        name = "Bin/%s/%s" % (cfg_name, oname)
        if neg is False:
            out.append({"id": name, "status": "unsat", "detail": "trivially unsatisfiable after constant folding", "time_s": 0, "per_solver": {}})
            continue
        r = _query(name, ["x", "y"], bt(neg), workdir, tlimit)
        if r["status"] == "sat":
            xv, yv = r["model"].get("x"), r["model"].get("y", 0.0)
            r["replay"] = _replay_bin_sem(h, oname, xv, yv)
        out.append(r)
    # every index is attained (sat expected) and, for edges that are exact floats, agrees with the half-open oracle
    for i in range(num):
        att = OR(*[AND(g, B("(fp.eq %s %s)" % (v.t, lit(float(i))))) for g, v in ix])
        r = _query("Bin/%s/index-%d-attained" % (cfg_name, i), ["x"], bt(att), workdir, tlimit)
        r["expect"] = "sat"
        if r["status"] == "sat":
            xv = r["model"].get("x")
            r["replay"] = {"reproduced": xv is not None and h.bin(xv) == i, "x": repr(xv)}
        out.append(r)
    return out


def _replay_bin_sem(h, oname, x, y):
    if x is None:
        return {"reproduced": False}
    try:
        if oname == "under-iff-x-lt-low":
            bad = h.under(x) != (x < h.low)
        elif oname == "over-iff-x-ge-high":
            bad = h.over(x) != (x >= h.high)
        elif oname == "nan-iff-isnan":
            bad = h.nan(x) != (x != x)
        elif oname == "index-monotone":
            bad = x <= y and h.bin(x) > h.bin(y) and h.bin(x) >= 0 and h.bin(y) >= 0
        elif oname == "index-of-low-is-0":
            bad = h.bin(h.low) != 0
        elif oname == "index-equals-documented-formula":
            import math as _m
            want = min(len(h.values) - 1, int(_m.floor(len(h.values) * (x - h.low) / (h.high - h.low))))
            bad = h.bin(x) != want
        else:
            bad = h.bin(x) >= 0 and (x != x or x < h.low or x >= h.high)
    except Exception as e:  # noqa: BLE001
        return {"reproduced": True, "x": repr(x), "y": repr(y), "detail": "raised %r" % (e,)}
    return {"reproduced": bool(bad), "x": repr(x), "y": repr(y)}


# ----------------------------------------------------------------------------- SparselyBin.bin
def obligations_sparse(cfg_name, bw, origin, workdir, tlimit, monotone=True):
    H = _H()
    import ast

    h = H.SparselyBin(bw, eval(IDENT), H.Count(), H.Count(), origin)
    out = []
    try:
        k = Kernel(H.SparselyBin, h, {})
        k.events, k.raises = [], []
        res = k.call_method("bin", [ast.Name("x", ast.Load())], {"self": h, "x": FP("x")}, True)
        raises = list(k.raises)
        k2 = Kernel(H.SparselyBin, h, {})
        k2.events, k2.raises = [], []
        res_y = k2.call_method("bin", [ast.Name("x", ast.Load())], {"self": h, "x": FP("y")}, True)
    except Unsupported as e:
        return [{"id": "SparselyBin/%s/encode" % cfg_name, "status": "unknown", "detail": "unsupported: %s" % e}]
    notnan = B("(not (fp.isNaN x))")
    LONGMAX = float(2**63)
    obs = [("no-exception-for-any-non-nan", AND(notnan, OR(*[g for g, _ in raises])) if raises else False)]
    # every non-NaN x gets some index
    obs.append(("total-on-non-nan", AND(notnan, NOT(OR(*[g for g, v in res])))))
    # symbolic index is an integer within the int64 range (no overflow past the saturation checks)
    rng = []
    for g, v in res:
        if isinstance(v, FP):
            rng.append(AND(g, OR(B("(fp.geq %s %s)" % (v.t, lit(LONGMAX))), B("(fp.leq %s %s)" % (v.t, lit(-LONGMAX))))))
    obs.append(("unsaturated-index-within-int64", OR(*rng) if rng else False))
    # monotone
    def val(v):
        return v.t if isinstance(v, FP) else lit(float(v))
    mono = []
    for g1, v1 in res:
        for g2, v2 in res_y:
            if isinstance(v1, int) and v1 == -(2**63):
                continue
            if isinstance(v2, int) and v2 == -(2**63):
                continue
            mono.append(AND(g1, g2, B("(fp.leq x y)"), B("(fp.gt %s %s)" % (val(v1), val(v2)))))
    if monotone:
        obs.append(("index-monotone", OR(*mono)))
    for oname, neg in obs:
        name = "SparselyBin/%s/%s" % (cfg_name, oname)
        if neg is False:
            out.append({"id": name, "status": "unsat", "detail": "trivially unsatisfiable after constant folding", "time_s": 0, "per_solver": {}})
            continue
        r = _query(name, ["x", "y"], bt(neg), workdir, tlimit)
        if r["status"] == "sat":
            xv, yv = r["model"].get("x"), r["model"].get("y", 0.0)
            try:
                bxv = h.bin(xv)
                rep = {"reproduced": oname == "index-monotone" and xv <= yv and bxv > h.bin(yv), "x": repr(xv), "y": repr(yv), "bin": bxv}
            except Exception as e:  # noqa: BLE001
                rep = {"reproduced": True, "x": repr(xv), "detail": "raised %r" % (e,)}
            r["replay"] = rep
        out.append(r)
    return out


# ----------------------------------------------------------------------------- numeq (C09)
def obligations_numeq(workdir, tlimit, symmetric=True):
    import ast

    import histogrammar.util as U

    out = []
    mod = types_module(U)
    for rel, ab in ((1e-12, 0.0), (0.0, 1e-12), (1e-12, 1e-12)):
        try:
            k0 = FuncKernel(U, "numeq", {"relativeTolerance": 0.0, "absoluteTolerance": 0.0})
            r0 = k0.call([FP("x"), FP("y")])
            k1 = FuncKernel(U, "numeq", {"relativeTolerance": rel, "absoluteTolerance": ab})
            r1 = k1.call([FP("x"), FP("y")])
            r1s = k1.call([FP("y"), FP("x")])
            r1r = k1.call([FP("x"), FP("x")])
        except Unsupported as e:
            out.append({"id": "numeq/(%g,%g)/encode" % (rel, ab), "status": "unknown", "detail": "unsupported: %s" % e})
            continue
        E0, E1, E1s, E1r = (OR(*[AND(g, v) for g, v in r]) for r in (r0, r1, r1s, r1r))
        obs = [
            ("zero-tolerance-equal-implies-tolerant-equal", AND(E0, NOT(E1))),
            ("reflexive", NOT(E1r)),
        ]
        if symmetric:
            obs.append(("symmetric", OR(AND(E1, NOT(E1s)), AND(NOT(E1), E1s))))
        for oname, neg in obs:
            name = "numeq/(%g,%g)/%s" % (rel, ab, oname)
            r = _query(name, ["x", "y"], bt(neg), workdir, tlimit)
            if r["status"] == "sat":
                xv, yv = r["model"].get("x"), r["model"].get("y")
                U.relativeTolerance, U.absoluteTolerance = rel, ab
                try:
                    a, b_, c = U.numeq(xv, yv), U.numeq(yv, xv), U.numeq(xv, xv)
                finally:
                    U.relativeTolerance, U.absoluteTolerance = 0.0, 0.0
                e0 = U.numeq(xv, yv)
                bad = {"zero-tolerance-equal-implies-tolerant-equal": e0 and not a, "symmetric": a != b_, "reflexive": not c}[oname]
                r["replay"] = {"reproduced": bool(bad), "x": repr(xv), "y": repr(yv)}
            out.append(r)
    return out


def types_module(m):
    return m


class FuncKernel(Kernel):
    """a module-level function instead of a method; module globals may be overridden (tolerances)"""

    def __init__(self, module, fname, overrides):
        import ast
        import inspect
        import textwrap

        self.cls = None
        self.selfobj = None
        self.symbols = {}
        self.events, self.raises = [], []
        self.methods = {}
        src = textwrap.dedent(inspect.getsource(getattr(module, fname)))
        self.fn = ast.parse(src).body[0]
        self.globals = dict(module.__dict__)
        self.globals.update(overrides)
        self.functions = [fname]

    def call(self, args):
        params = [a.arg for a in self.fn.args.args]
        local = dict(zip(params, args))
        out = []
        for oc in self.block(self.fn.body, local, True):
            if oc.kind == "return":
                out.append((oc.guard, oc.value))
        return out


# ----------------------------------------------------------------------------- drivers
def summarize(results, prop):
    """split kernel query results into decided / violations for run.py"""
    violations = []
    decided = 0
    samples = []
    stime = 0.0
    for r in results:
        stime += r.get("time_s", 0) or 0
        expect = r.get("expect", "unsat")
        st = r["status"]
        verdict = "UNKNOWN"
        if st == expect:
            verdict = "HOLDS"
            decided += 1
        elif st in ("sat", "unsat"):
            rep = r.get("replay", {})
            if st == "sat" and rep.get("reproduced"):
                verdict = "REFUTED"
                decided += 1
                violations.append({"id": "%s/kernel/%s" % (prop, r["id"]), "label": rep.get("detail", "counterexample x=%s" % rep.get("x")),
                                   "counterexample": rep.get("x"), "replay": "-", "status": "REFUTED"})
            elif st == "unsat" and expect == "sat":
                verdict = "REFUTED"
                decided += 1
                violations.append({"id": "%s/kernel/%s" % (prop, r["id"]), "label": "bin index never attained", "counterexample": None, "replay": "-", "status": "REFUTED"})
            else:
                verdict = "SPURIOUS"
        s = {"id": r["id"], "verdict": verdict, "solver_status": st, "per_solver": r.get("per_solver"), "time_s": r.get("time_s")}
        if "replay" in r:
            s["replay"] = r["replay"]
        if "detail" in r:
            s["detail"] = r["detail"]
        samples.append(s)
    return {"evaluations": len(results), "decided": decided, "violations": violations, "samples": samples,
            "solver_queries": len(results) * 2, "solver_time_s": round(stime, 2)}


SIMPLE = [3.4, 2.2, -1.8, 0.0, 7.3, -4.7, 1.6, 0.0, -3.0, -1.7]  # the data of tests/test_basic.py


def _probe_values(points):
    vals = set(SIMPLE)
    for p in points:
        for v in (p, math.nextafter(p, math.inf), math.nextafter(p, -math.inf)):
            vals.add(v)
    pts = sorted(points)
    for a, b in zip(pts, pts[1:]):
        vals.add((a + b) / 2.0)
    return sorted(vals) + [float("nan"), float("inf"), float("-inf"), -0.0]


def validate_translator(workdir):
    """Serval-style validation: the SMT encoding of each index kernel, with x pinned to concrete inputs (the repo's own
    test data, every edge / midpoint of the configurations and their floating-point neighbours, NaN, +-inf), must
    produce exactly what the real method returns.  One incremental z3 session per kernel."""
    import ast
    import subprocess

    H = _H()
    from histogrammar.defs import Factory

    checked = 0
    kernels_ = []
    for cfg in BIN_CONFIGS:
        num, low, high = cfg
        h = H.Bin(num, low, high, eval(IDENT))
        edges = [low + i * (high - low) / num for i in range(num + 1)]
        kernels_.append(("Bin" + _cfgname(cfg), Factory.registered["Bin"], h, "bin", _probe_values(edges)))
    for cfg in SPARSE_CONFIGS:
        h = H.SparselyBin(cfg[0], eval(IDENT), H.Count(), H.Count(), cfg[1])
        kernels_.append(("SparselyBin" + _cfgname(cfg), Factory.registered["SparselyBin"], h, "bin", _probe_values([cfg[1] + i * cfg[0] for i in range(-3, 4)]) + [1e300, -1e300, 9.3e18 * cfg[0]]))
    for cs in CENTERS:
        h = H.CentrallyBin(cs, eval(IDENT))
        kernels_.append(("CentrallyBin%r" % (cs,), Factory.registered["CentrallyBin"], h, "index", _probe_values(cs)))
    for name, cls, h, meth, values in kernels_:
        k = Kernel(cls, h, {})
        k.events, k.raises = [], []
        outs = k.call_method(meth, [ast.Name("x", ast.Load())], {"self": h, "x": FP("x")}, True)
        lines = ["(set-logic QF_FP)", "(declare-const x (_ FloatingPoint 11 53))"]
        expected = []
        for v in values:
            try:
                real = getattr(h, meth)(v)
            except Exception as e:  # noqa: BLE001
                real = "EXC"
            expected.append(real)
            if real == "EXC":
                agree = OR(*[g for g, _ in k.raises]) if k.raises else False
            else:
                alts = []
                for g, val in outs:
                    if isinstance(val, FP):
                        alts.append(AND(g, B("(fp.eq %s %s)" % (val.t, lit(float(real))))) if real is not None and abs(real) < 2**53 else AND(g, False))
                    else:
                        alts.append(AND(g, val == real))
                agree = OR(*alts)
            pin = "(= x %s)" % lit(v) if v == v else "(fp.isNaN x)"
            lines += ["(push 1)", "(assert %s)" % pin, "(assert %s)" % bt(NOT(agree)), "(check-sat)", "(pop 1)"]
        p = subprocess.run(["z3", "-in"], input="\n".join(lines) + "\n", capture_output=True, text=True, timeout=600)
        verdicts = [ln.strip() for ln in p.stdout.split("\n") if ln.strip()]
        if len(verdicts) != len(values) or "(error" in p.stdout:
            raise SystemExit("HARNESS-ERROR: translator validation could not run for %s: %s" % (name, p.stdout[:300]))
        for v, e, verdict in zip(values, expected, verdicts):
            checked += 1
            if verdict != "unsat":
                print("HARNESS-ERROR: kernel encoding of %s.%s disagrees with the real method at x=%r (real %r, solver %s)" % (name, meth, v, e, verdict))
                raise SystemExit(2)
    return checked


def _pool(jobs, nthreads=8):
    import concurrent.futures as cf

    out = []
    with cf.ThreadPoolExecutor(nthreads) as ex:
        for res in ex.map(lambda f: f(), jobs):
            out += res
    return out


def _cfgname(cfg):
    return "(" + ",".join(repr(c) for c in cfg) + ")"


def run_C05(tier, workdir):
    """exactly-one-bin / no exception for every double, per configuration"""
    H = _H()
    from histogrammar.defs import Factory

    tl = 60 if tier == "quick" else 300
    jobs = []
    bins = BIN_CONFIGS if tier == "thorough" else BIN_CONFIGS[:9]
    for cfg in bins:
        def job(cfg=cfg):
            h, k = _bin_kernel(*cfg)
            return obligations_fill("Bin", _cfgname(cfg), h, k, workdir, tl, replay_fill)
        jobs.append(job)
    for cfg in SPARSE_CONFIGS:
        jobs.append(lambda cfg=cfg: obligations_sparse(_cfgname(cfg), cfg[0], cfg[1], workdir, tl, monotone=False))
    for cs in CENTERS:
        def job(cs=cs):
            h = H.CentrallyBin(cs, eval(IDENT))
            return obligations_fill("CentrallyBin", repr(cs), h, Kernel(Factory.registered["CentrallyBin"], h, {"x": FP("x")}), workdir, tl, replay_fill)
        jobs.append(job)
    for es in EDGES:
        def job(es=es):
            h = H.IrregularlyBin(es, eval(IDENT))
            return obligations_fill("IrregularlyBin", repr(es), h, Kernel(Factory.registered["IrregularlyBin"], h, {"x": FP("x")}), workdir, tl, replay_fill)
        jobs.append(job)
    try:
        n = validate_translator(workdir)
        results = _pool(jobs)
    except Unsupported as e:
        n = 0
        results = [{"id": "encode", "status": "unknown", "detail": "kernel not encodable: %s" % e}]
    results += conservation_probes()
    out = summarize(results, "C05")
    out["samples"].insert(0, {"translator_validation": "encoding pinned to concrete inputs == real method", "inputs_checked": n})
    return out


def conservation_probes():
    """the vectorised paths are numpy C code: on the edge probes of every configuration (sampled), filled through the real
    numpy in one batch, every datum must land in exactly one bin or flow (entries == sum of parts == number of rows)"""
    import numpy as np

    import probes

    H = _H()
    out = []
    cases = []
    for cfg in BIN_CONFIGS + [(100, -3.0, 3.0), (20, -1.0, 1.0), (7, -1000.3, 0.1), (3, -1.0, 2.0), (1000, 0.0, 1.0)]:
        num, low, high = cfg
        cases.append(("Bin/%s" % _cfgname(cfg), lambda cfg=cfg: H.Bin(cfg[0], cfg[1], cfg[2], eval(IDENT)), [low + i * (high - low) / num for i in range(num + 1)]))
        cases.append(("Bin/%s/Sum" % _cfgname(cfg), lambda cfg=cfg: H.Bin(cfg[0], cfg[1], cfg[2], eval(IDENT), H.Sum(eval(IDENT))), [low + i * (high - low) / num for i in range(num + 1)]))
    for cfg in SPARSE_CONFIGS:
        cases.append(("SparselyBin/%s" % _cfgname(cfg), lambda cfg=cfg: H.SparselyBin(cfg[0], eval(IDENT), H.Count(), H.Count(), cfg[1]), [cfg[1] + i * cfg[0] for i in range(-3, 4)]))
    for cs in CENTERS:
        cases.append(("CentrallyBin/%r" % (cs,), lambda cs=cs: H.CentrallyBin(cs, eval(IDENT)), [(a + b) / 2.0 for a, b in zip(cs, cs[1:])] + list(cs)))
    for es in EDGES:
        cases.append(("IrregularlyBin/%r" % (es,), lambda es=es: H.IrregularlyBin(es, eval(IDENT)), list(es)))
    for name, mk, edges in cases:
        finite = probes.edge_probes(edges)
        bad = None
        # an all-finite batch (takes the np.histogram / np.unique fast paths) and a batch with NaN, +-inf and huge values
        for xs in (finite, finite + [float("nan"), float("inf"), float("-inf"), 1e300, -1e300]):
            h = mk()
            try:
                with np.errstate(all="ignore"):
                    h.fill.numpy(np.array(xs, dtype=float))
                parts = _parts(h)
                if h.entries != float(len(xs)) or sum(parts) != float(len(xs)):
                    bad = bad or "entries %r, parts sum %r, rows %d" % (h.entries, sum(parts), len(xs))
            except Exception as e:  # noqa: BLE001
                bad = bad or "fill.numpy raised %r" % (e,)
        xs = finite
        rid = "%s/vectorised-conservation(probes)" % name
        if bad is None:
            out.append({"id": rid, "status": "unsat", "expect": "unsat", "sampled": True, "time_s": 0, "per_solver": {},
                        "detail": "sampled: %d edge probes in one real-numpy batch, every row in exactly one bin or flow" % len(xs)})
        else:
            out.append({"id": rid, "status": "sat", "expect": "unsat", "sampled": True, "time_s": 0, "per_solver": {},
                        "replay": {"reproduced": True, "x": "edge-probe batch", "detail": "vectorised fill of the edge probes loses or duplicates a row: " + bad}})
    return out


def probe_formula_fallback(prop):
    """used when an index kernel cannot be encoded (unsupported construct): the real method is compared with the documented
    index formula, evaluated in plain double arithmetic, on the edge probes of every configuration (sampled, not solver-decided)"""
    import probes

    H = _H()
    out = []
    for cfg in BIN_CONFIGS:
        num, low, high = cfg
        h = H.Bin(num, low, high, eval(IDENT))
        bad = None
        n = 0
        for x in probes.edge_probes([low + i * (high - low) / num for i in range(num + 1)]):
            if not (low <= x < high):
                continue
            n += 1
            want = min(num - 1, int(math.floor(num * (x - low) / (high - low))))
            if h.bin(x) != want:
                bad = (x, h.bin(x), want)
                break
        out.append(_probe_result("Bin/%s/index-equals-documented-formula(probes)" % _cfgname(cfg), n, bad))
    for cfg in SPARSE_CONFIGS:
        bw, origin = cfg
        h = H.SparselyBin(bw, eval(IDENT), H.Count(), H.Count(), origin)
        bad = None
        n = 0
        for x in probes.edge_probes([origin + i * bw for i in range(-3, 4)]):
            n += 1
            want = int(math.floor((x - origin) / bw))
            if h.bin(x) != want:
                bad = (x, h.bin(x), want)
                break
        out.append(_probe_result("SparselyBin/%s/index-equals-documented-formula(probes)" % _cfgname(cfg), n, bad))
    return out


def _probe_result(name, n, bad):
    if bad is None:
        return {"id": name, "status": "unsat", "expect": "unsat", "detail": "sampled: %d edge probes agree with the documented formula (no solver verdict)" % n,
                "time_s": 0, "per_solver": {}, "sampled": True}
    x, got, want = bad
    return {"id": name, "status": "sat", "expect": "unsat", "time_s": 0, "per_solver": {}, "sampled": True,
            "replay": {"reproduced": True, "x": repr(x), "detail": "x=%r is put in bin %r, the documented formula gives %r" % (x, got, want)}}


def run_C02(tier, workdir):
    """routing semantics of Bin (IEEE): flows iff comparisons, index monotone, bin(low)==0, every index attained"""
    tl = 60 if tier == "quick" else 300
    jobs = []
    cfgs = BIN_CONFIGS if tier == "thorough" else [c for c in BIN_CONFIGS if c[0] <= 10][:7]
    for cfg in cfgs:
        jobs.append(lambda cfg=cfg: obligations_bin_semantics(_cfgname(cfg), cfg[0], cfg[1], cfg[2], workdir, tl))
    if tier == "thorough":
        for cfg in SPARSE_CONFIGS:
            jobs.append(lambda cfg=cfg: [r for r in obligations_sparse(_cfgname(cfg), cfg[0], cfg[1], workdir, tl) if "monotone" in r["id"]])
    H = _H()
    for cs in CENTERS:
        def cjob(cs=cs):
            # documented routing of CentrallyBin: the nearest centre, the cut between neighbours is (c1 + c2) / 2 evaluated
            # in double arithmetic, a datum on the cut goes to the upper bin (reference intervals computed here, not by the library)
            h = H.CentrallyBin(cs, eval(IDENT))
            c = sorted(cs)
            rng = {i: (float("-inf") if i == 0 else (c[i - 1] + c[i]) / 2.0, float("inf") if i == len(c) - 1 else (c[i] + c[i + 1]) / 2.0, i == len(c) - 1) for i in range(len(c))}
            return obligations_index_vs_range("CentrallyBin", repr(cs), h, "index", rng, workdir, tl, what="index-equals-documented-nearest-centre-rule")
        jobs.append(cjob)
    try:
        n = validate_translator(workdir)
        results = _pool(jobs)
    except Unsupported as e:
        # a kernel uses a construct the encoder does not support: no solver verdict for it; fall back to sampled probes
        n = 0
        results = [{"id": "encode", "status": "unknown", "detail": "kernel not encodable: %s" % e}] + probe_formula_fallback("C02")
    results += probe_formula_fallback("C02") if tier == "thorough" and n else []
    out = summarize(results, "C02")
    out["samples"].insert(0, {"translator_validation": "encoding pinned to concrete inputs == real method", "inputs_checked": n})
    return out


def run_C09(tier, workdir):
    tl = 60 if tier == "quick" else 600
    res = obligations_numeq(workdir, tl, symmetric=(tier == "thorough"))
    return summarize(res, "C09")


# ----------------------------------------------------------------------------- C13: the partition fill uses vs the edges the views report
def obligations_index_vs_range(cls_name, cfg_name, h, meth, ranges, workdir, tlimit, what="datum-inside-reported-edges-of-its-bin"):
    """for every double x: if the index kernel returns i then the reported edges of bin i contain x
    (ranges[i] = (lo, hi) are obtained by calling the real accessor concretely; the index kernel is encoded from source)"""
    import ast

    from histogrammar.defs import Factory

    name = "%s/%s/%s" % (cls_name, cfg_name, what)
    try:
        k = Kernel(Factory.registered[cls_name], h, {})
        k.events, k.raises = [], []
        outs = k.call_method(meth, [ast.Name("x", ast.Load())], {"self": h, "x": FP("x")}, True)
    except Unsupported as e:
        return [{"id": name, "status": "unknown", "detail": "unsupported: %s" % e}]
    bad = []
    for i, (lo, hi, closed) in ranges.items():
        outside = OR(B("(fp.lt x %s)" % lit(lo)), B("(%s x %s)" % ("fp.gt" if closed else "fp.geq", lit(hi))))
        for g, v in outs:
            if isinstance(v, FP):
                bad.append(AND(g, B("(fp.eq %s %s)" % (v.t, lit(float(i)))), outside))
            elif v == i:
                bad.append(AND(g, outside))
    neg = AND(B("(not (fp.isNaN x))"), OR(*bad))
    r = _query(name, ["x"], bt(neg), workdir, tlimit)
    if r["status"] == "sat":
        x = r["model"].get("x")
        try:
            i = getattr(h, meth)(x)
            lo, hi, closed = ranges[i]
            rep = {"reproduced": bool(x < lo or (x > hi if closed else x >= hi)), "x": repr(x),
                   "detail": "x=%r is put in bin %r whose reported edges are [%r, %r)" % (x, i, lo, hi)}
        except Exception as e:  # noqa: BLE001
            rep = {"reproduced": False, "x": repr(x), "detail": "replay failed: %r" % (e,)}
        r["replay"] = rep
    return [r]


def run_C13(tier, workdir):
    H = _H()
    tl = 60 if tier == "quick" else 300
    jobs = []
    for cfg in (BIN_CONFIGS if tier == "thorough" else BIN_CONFIGS[:10]):
        def job(cfg=cfg):
            h = H.Bin(cfg[0], cfg[1], cfg[2], eval(IDENT))
            rng = {i: (h.range(i)[0], h.range(i)[1], False) for i in range(cfg[0])}
            return obligations_index_vs_range("Bin", _cfgname(cfg), h, "bin", rng, workdir, tl)
        jobs.append(job)
    for cfg in SPARSE_CONFIGS:
        def job(cfg=cfg):
            h = H.SparselyBin(cfg[0], eval(IDENT), H.Count(), H.Count(), cfg[1])
            rng = {i: (h.range(i)[0], h.range(i)[1], False) for i in range(-3, 4)}
            return obligations_index_vs_range("SparselyBin", _cfgname(cfg), h, "bin", rng, workdir, tl)
        jobs.append(job)
    for cs in CENTERS:
        def job(cs=cs):
            h = H.CentrallyBin(cs, eval(IDENT))
            rng = {}
            for i, c in enumerate(h.centers):
                lo, hi = h.range(c)
                rng[i] = (lo, hi, i == len(cs) - 1)
            return obligations_index_vs_range("CentrallyBin", repr(cs), h, "index", rng, workdir, tl)
        jobs.append(job)
    return summarize(_pool(jobs), "C13")
