"""C03 vectorised (numpy) fill is observationally equal to per-row fill (E1 real mode + E3 numpy model)."""
import catalogue as cat
from gen_common import SETUP, SPECIAL_XY, bounds_text, data_params
from run import Harness

ASSUMPTIONS = [
    "numpy is replaced, inside the harness process only, by engine/npmodel.py (1-D arrays as lists of symbolic scalars, exact real "
    "arithmetic); the model is validated differentially against the real numpy before the symbolic runs, and every counterexample "
    "is replayed with the real numpy",
    "outside the solver-decided claim: batches longer than 3 and IEEE rounding of the vectorised index (the symbolic harnesses use exact reals); "
    "the latter is sampled with the real numpy on every edge, its float neighbours and midpoints of 26 configurations (C03/edge-probes), "
    "real arrays with NaN/inf rows and zero weights are sampled by C03/buffers - both families are concrete and labelled so in their bounds",
]

C03_SETUP = SETUP + '''
import npmodel
if SYMBOLIC:
    ARR = lambda xs: npmodel.array(xs)
    SARR = lambda xs: npmodel.array(xs)
    NPM = npmodel.installed
else:
    import numpy as _np
    ARR = lambda xs: _np.array(xs, dtype=float)
    SARR = lambda xs: _np.array(xs)
    NPM = NT

def dropzero(doc):
    """remove sparse bins / categories that hold zero weight (the property compares content up to those)"""
    if isinstance(doc, dict):
        out = {}
        for k, v in doc.items():
            if k == "bins" and isinstance(v, dict):
                kept = {}
                for bk, bv in v.items():
                    e = bv["entries"] if isinstance(bv, dict) else bv
                    if e != 0.0:
                        kept[bk] = dropzero(bv)
                out[k] = kept
            else:
                out[k] = dropzero(v)
        return out
    if isinstance(doc, list):
        return [dropzero(v) for v in doc]
    return doc

class Cols:
    """column store: data[i] is column i (what the row quantities index), data[mask] is the row-filtered store
    (the slicing some multi-dimensional paths apply to `data`, as a DataFrame or record array supports)"""
    def __init__(self, cols):
        self.cols = tuple(cols)
    def __getitem__(self, k):
        if isinstance(k, int):
            return self.cols[k]
        return Cols([c[k] for c in self.cols])
    def __len__(self):
        return len(self.cols)

def columns(data):
    return Cols((ARR([d[0] for d in data]), ARR([d[1] for d in data]), SARR([d[2] for d in data]), ARR([d[3] for d in data])))
'''


def _setup(tree):
    return C03_SETUP + f"MK = lambda: {tree.expr}\n"


def vec(tree, n, wkind, special=False, split=False, timeout=60, fixy=False):
    """wkind: 'none' (weights omitted), 'scalar' (symbolic scalar >= 0), 'array' (symbolic array >= 0)"""
    p, pre, code = data_params(tree, n, mode="real", special=special, cats=2, fix_leaf_y=fixy)
    code = code.replace("None", '"c"')
    params = list(p)
    if "x" in tree.sparse:
        # sparse indexes saturate for huge quotients: let the solver also pick finite values far outside the int64 index range
        import re as _re
        code = _re.sub(r"\((x\d+),", r"(sel(h\1, \1, 1e300, -1e300),", code)
        for i in range(1, n + 1):
            params.append((f"hx{i}", "int"))
            pre.append(f"0 <= hx{i} <= 2")
    if wkind == "scalar":
        params.append(("wsc", "float"))
        pre.append("wsc >= 0.0")
        wrow = ["wsc"] * n
        warg = ", wsc"
    elif wkind == "array":
        for i in range(1, n + 1):
            params.append((f"w{i}", "float"))
            pre.append(f"w{i} >= 0.0")
        wrow = [f"w{i}" for i in range(1, n + 1)]
        warg = ", ARR([%s])" % ", ".join(wrow)
    else:
        wrow = ["1.0"] * n
        warg = ""
    body = code + f"""
wrow = [{', '.join(wrow)}]
a, b = fresh(MK, 2)
cols = columns(data)
x_before = cols[0].tolist(); y_before = cols[1].tolist()
"""
    if wkind == "array":
        body += "WA = ARR(wrow); w_before = WA.tolist()\n"
        warg = ", WA"
    if split:
        params.append(("cut", "int"))
        pre.append(f"0 <= cut <= {n}")
        body += f"""
first = columns(data[:cut]); second = columns(data[cut:])
with NPM():
    if cut > 0: a.fill.numpy(first{', ARR(wrow[:cut])' if wkind == 'array' else warg})
    if cut < {n}: a.fill.numpy(second{', ARR(wrow[cut:])' if wkind == 'array' else warg})
"""
    else:
        body += f"""
with NPM():
    a.fill.numpy(cols{warg})
"""
    body += """
for d, w in zip(data, wrow): b.fill(d, w)
if not jeq(dropzero(J(a)), dropzero(J(b))): return "numpy-fill-differs-from-row-fill"
if cols[0].tolist() != x_before or cols[1].tolist() != y_before: return "input-array-modified"
"""
    if wkind == "array" and not split:
        body += 'if WA.tolist() != w_before: return "weight-array-modified"\n'
        body += """
# the same weight array reused for a second batch must still mean the same weights
a2, b2 = fresh(MK, 2)
with NPM():
    a2.fill.numpy(cols, WA)
for d, w in zip(data, wrow): b2.fill(d, w)
if not jeq(dropzero(J(a2)), dropzero(J(b2))): return "reused-weight-array-gives-different-result"
"""
    tag = wkind + ("-s" if special else "") + ("-split" if split else "") + ("-fixy" if fixy else "")
    return Harness(
        f"C03/vec/{tree.name}/n{n}/{tag}", params, " and ".join(pre), body, timeout=timeout, setup=_setup(tree), tree=tree.expr,
        special=SPECIAL_XY if special else None,
        bounds=bounds_text(tree, n, weights={"none": "omitted (1.0)", "scalar": "symbolic scalar >= 0", "array": "symbolic array >= 0 (zeros included)"}[wkind],
                           data="finite reals + nan/+inf/-inf" if special else "finite reals", split="symbolic cut into two successive fill.numpy calls" if split else "one call"),
    )


def _fillable(t):
    return t.name != "Count" and (t.uses_x or t.uses_y or t.uses_c or t.uses_n)


def pre_checks(tier, workdir):
    """Differential validation of the numpy model: every catalogue tree, concrete batches over its critical values,
    three weight forms; fill.numpy with the real numpy vs with the model must serialise identically."""
    import itertools
    import json

    import numpy as np

    import npmodel
    ns = {}
    exec("import sys\nsys.path.insert(0, %r)\nfrom vp import *\n" % __import__("os").path.dirname(__file__) + C03_SETUP.replace("if SYMBOLIC:", "if False:"), ns)
    xs = [-1.0, 0.0, 0.5, 1.0, 2.0, float("nan"), float("inf"), float("-inf"), 1e300, -1e300]
    n_cmp = 0
    bad = []
    trees = [t for t in cat.unit() + cat.deep() + cat.slot()[:: (1 if tier == "thorough" else 7)] if _fillable(t)]
    for t in trees:
        mk = eval("lambda: " + t.expr, ns)
        for combo in itertools.product(xs, repeat=2):
            for wform in ("none", "scalar", "array"):
                data = [(combo[0], 0.25, "a", 1.0), (combo[1], -0.5, "b", 2.5)]
                if t.sparse and not all(-2 <= v < 2 or v != v or abs(v) >= 1e300 for v in combo):
                    continue
                wl = [2.0, 0.0]
                res = []
                for model in (False, True):
                    h = mk()
                    A = (lambda v: npmodel.array(v)) if model else (lambda v: np.array(v, dtype=float))
                    S = (lambda v: npmodel.array(v)) if model else (lambda v: np.array(v))
                    cols = ns["Cols"]((A([d[0] for d in data]), A([d[1] for d in data]), S([d[2] for d in data]), A([d[3] for d in data])))
                    args = {"none": (), "scalar": (1.5,), "array": (A(wl),)}[wform]
                    try:
                        if model:
                            with npmodel.installed():
                                h.fill.numpy(cols, *args)
                        else:
                            with np.errstate(all="ignore"):
                                h.fill.numpy(cols, *args)
                        res.append(json.dumps(h.toJson(), sort_keys=True))
                    except Exception as e:  # noqa: BLE001
                        res.append("EXC:" + type(e).__name__)
                n_cmp += 1
                if res[0] != res[1] and not (res[0].startswith("EXC") and res[1].startswith("EXC")):
                    a, b = res
                    if not (not a.startswith("EXC") and not b.startswith("EXC") and ns["_close"](json.loads(a), json.loads(b))):
                        bad.append({"tree": t.name, "x": repr(combo), "weights": wform, "numpy": res[0][:300], "model": res[1][:300]})
    gap = sorted({b["tree"] for b in bad if b["model"].startswith("EXC:") and not b["numpy"].startswith("EXC:")})
    wrong = [b for b in bad if not (b["model"].startswith("EXC:") and not b["numpy"].startswith("EXC:"))]
    if wrong:
        print("HARNESS-ERROR: numpy model disagrees with numpy on %d of %d concrete batches, e.g. %s" % (len(wrong), n_cmp, json.dumps(wrong[0])))
        raise SystemExit(2)
    out = {"evaluations": 0, "decided": 0, "samples": [{"numpy_model_validation": "fill.numpy via real numpy vs via npmodel", "batches_compared": n_cmp, "trees": len(trees), "disagreements": 0}]}
    if gap:
        # the current source calls something of numpy that the model does not implement (the model raised, numpy did not):
        # the symbolic harnesses of those trees cannot be trusted, so they are reported undecided; the real-numpy
        # harnesses (C03/buffers, C03 pre-validation itself) still run
        print("MODEL-GAP: npmodel lacks a numpy feature used for %s (%s); their symbolic harnesses are reported undecided" % (gap, bad[0]["model"]))
        out["samples"][0]["model_gap_trees"] = gap
        out["undecidable_trees"] = gap
    return out


EXTRA = [
    ("Branch(Count,Sum)", "H.Branch(H.Count(), H.Sum(qx))"),
    ("UntypedLabel(Count,Sum)", "H.UntypedLabel(a=H.Count(), b=H.Sum(qx))"),
    ("Branch(Count,Bin)", "H.Branch(H.Count(), H.Bin(2, 0.0, 2.0, qx))"),
    ("Select>Count", "H.Select(qb, H.Count())"),
    ("UntypedLabel(Count,Label(Sum,Sum))", "H.UntypedLabel(n=H.Count(), hists=H.Label(a=H.Sum(qx), b=H.Sum(qx)))"),
    ("Branch(Count,Index(Sum,Sum))", "H.Branch(H.Count(), H.Index(H.Sum(qx), H.Sum(qx)))"),
    ("Branch(Count,Branch(Count,Sum))", "H.Branch(H.Count(), H.Branch(H.Count(), H.Sum(qx)))"),
    ("Stack(descending)", "H.Stack([1.0, 0.0], qx)"),
    ("Stack(descending)>Sum", "H.Stack([1.5, 0.5, 1.0], qx, H.Sum(qy))"),
    ("IrregularlyBin(unordered)", "H.IrregularlyBin([1.0, 0.0], qx)"),
    ("Branch(Label(Count),Bin)", "H.Branch(H.Label(a=H.Count()), H.Bin(2, 0.0, 2.0, qx))"),
    ("Fraction(float)", "H.Fraction(qx, H.Count())"),
    ("Select(float)>Sum", "H.Select(qx, H.Sum(qy))"),
    ("Bin>Fraction(float)", "H.Bin(2, 0.0, 2.0, qy, H.Fraction(qx, H.Count()))"),
    ("Branch(IrregularlyBin,Sum)", "H.Branch(H.IrregularlyBin([0.0, 1.0], qx), H.Sum(qy))"),
    ("Label(Stack,Stack)", "H.Label(a=H.Stack([0.0, 1.0], qx), b=H.Stack([0.5], qy))"),
    ("Index(CentrallyBin,CentrallyBin)", "H.Index(H.CentrallyBin([0.0, 2.0], qx), H.CentrallyBin([0.0, 2.0], qy))"),
    ("Fraction>IrregularlyBin", "H.Fraction(qb, H.IrregularlyBin([0.0, 1.0], qy))"),
    ("UntypedLabel(SparselyBin,Bin)", "H.UntypedLabel(a=H.SparselyBin(1.0, qx), b=H.Bin(2, 0.0, 2.0, qy))"),
    ("Bin>Count-transform", "H.Bin(2, 0.0, 2.0, qx, H.Count(lambda w: 2 * w))"),
]


def harnesses(tier):
    import gen_C03_extra
    out = gen_C03_extra.harnesses(tier) + gen_C03_extra.buffer_harnesses(tier)
    if __import__("os").environ.get("VERIF_C03_EDGE", "1") == "1":
        out += gen_C03_extra.edge_harnesses(tier)
    units = [t for t in cat.unit() if _fillable(t)] + [cat.Tree(n, e) for n, e in EXTRA]
    for t in units:
        out.append(vec(t, 2, "none", special=True))
        out.append(vec(t, 2, "array"))
        out.append(vec(t, 2, "array", special=True, timeout=90))
        out.append(vec(t, 2, "scalar", timeout=60))
        out.append(vec(t, 2, "none", split=True))
    slots = [t for t in cat.slot() if _fillable(t)]
    if tier == "thorough":
        slots = slots[::2]
    if tier == "quick":
        slots = [t for i, t in enumerate(slots) if i % 6 == 5]
    big = 60 if tier == "quick" else 240
    for t in slots + cat.deep():
        out.append(vec(t, 2, "none", timeout=big, fixy=(tier == "quick")))
        out.append(vec(t, 2, "array", timeout=big, fixy=(tier == "quick")))
        if "Average" in t.expr or "Deviate" in t.expr or "Profile" in t.expr:
            # successive batches: a node filled by the first batch may receive no positive-weight row from the second
            out.append(vec(t, 2, "none", split=True, timeout=big, fixy=(tier == "quick")))
    if tier == "thorough":
        for t in units:
            out.append(vec(t, 3, "none", timeout=240))
            out.append(vec(t, 3, "array", timeout=300))
            out.append(vec(t, 3, "array", split=True, timeout=300))
    return out
