"""Concrete edge probes (used where the question is at the ulp level and the code in question is numpy C code or cannot be
encoded): every interior edge of a configuration, its floating-point neighbours, midpoints, NaN, +-inf, huge values.
These are *sampled* inputs, reported as such; they never stand in for a solver verdict."""
import math


def edge_probes(edges):
    vals = set()
    for p in edges:
        for v in (p, math.nextafter(p, math.inf), math.nextafter(p, -math.inf), math.nextafter(math.nextafter(p, -math.inf), -math.inf)):
            vals.add(v)
    pts = sorted(edges)
    for a, b in zip(pts, pts[1:]):
        vals.add((a + b) / 2.0)
    return sorted(vals)
