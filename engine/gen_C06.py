"""C06 non-interference: pure operations never mutate operands or share mutable state."""
import catalogue as cat
from gen_common import SETUP, SPECIAL_XY, bounds_text, data_params
from run import Harness

ASSUMPTIONS = [
    "oracle is behavioural (JSON snapshots before/after), never an identity test: never-filled shared templates cannot alarm",
    "hash()/repr() are exercised on solver-chosen data in a separate harness because hashing realises symbolic floats",
    "dfinterface/addmethods.py defaults are outside (pandas)",
]


def _setup(tree):
    return SETUP + f"MK = lambda: {tree.expr}\n"


OPS = {
    "add": "a + b",
    "mul": "a * f",
    "rmul": "f * a",
    "zero": "a.zero()",
    "copy": "a.copy()",
}


def pure(tree, mode="real", timeout=60):
    pa, prea, codea = data_params(tree, 1, mode=mode, prefix="a", nums=3)
    pb, preb, codeb = data_params(tree, 1, mode=mode, prefix="b", nums=3)
    body = codea + codeb + """
a, b = fresh(MK, 2)
a.fill(adata[0]); b.fill(bdata[0])
ja, jb = J(a), J(b)
r1 = a + b
r2 = a * 2.0
r3 = 0.5 * a
r4 = a.zero()
r5 = a.copy()
r6 = a.toJson()
r6b = a.toJsonString() if not SYMBOLIC else a.toJson()
r7 = (a == b)
r8 = (a != b)
if not jeq(J(a), ja): return "left-operand-changed"
if not jeq(J(b), jb): return "right-operand-changed"
"""
    return Harness(
        f"C06/pure/{tree.name}/{mode}", pa + pb, " and ".join(prea + preb), body, mode=mode, timeout=timeout,
        setup=_setup(tree), tree=tree.expr,
        bounds=bounds_text(tree, 2, ops="a+b, a*2.0, 0.5*a, zero, copy, toJson, ==, !="),
    )


def hashrepr(tree, timeout=30):
    """hash/repr/accessors on a state filled from solver-chosen concrete selectors (floats fixed)."""
    body = """
a, b = fresh(MK, 2)
da = (0.5, 1.5, "a", 1.0); db = (k * 1.0, 0.25, "b", 2.5)
a.fill(da); b.fill(db)
ja, jb = J(a), J(b)
h1 = hash(a); s = repr(a); c = a.children; e = (a == b)
if hash(a) != h1: return "hash-not-stable"
if not jeq(J(a), ja): return "operand-changed-by-hash-repr"
if not jeq(J(b), jb): return "other-changed"
"""
    return Harness(
        f"C06/hashrepr/{tree.name}", [("k", "int")], "0 <= k <= 2", body, mode="real", timeout=timeout,
        setup=_setup(tree), tree=tree.expr, bounds=bounds_text(tree, 2, data="concrete records, selector k in 0..2"),
    )


def mutate_result(tree, op, mode="real", timeout=60, fixy=False):
    pa, prea, codea = data_params(tree, 1, mode=mode, prefix="a", fix_leaf_y=fixy)
    pb, preb, codeb = data_params(tree, 1, mode=mode, prefix="b", fix_leaf_y=fixy)
    pe, pree, codee = data_params(tree, 1, mode=mode, prefix="e", fix_leaf_y=fixy)
    params = pa + pb + pe
    pre = prea + preb + pree
    if op in ("mul", "rmul"):
        params = params + [("f", "float")]
        pre = pre + ["finite(f) and f > 0.0" if mode == "real" else "f > 0.0"]
    body = codea + codeb + codee + f"""
a, b = fresh(MK, 2)
a.fill(adata[0]); b.fill(bdata[0])
ja, jb = J(a), J(b)
r = {OPS[op]}
r.fill(edata[0])
if not jeq(J(a), ja): return "fill-of-result-changed-left-operand"
if not jeq(J(b), jb): return "fill-of-result-changed-right-operand"
jr = J(r)
a.fill(edata[0])
b.fill(edata[0])
if not jeq(J(r), jr): return "fill-of-operand-changed-result"
"""
    return Harness(
        f"C06/mut/{tree.name}/{op}/{mode}" + ("-fixy" if fixy else ""), params, " and ".join(pre), body, mode=mode, timeout=timeout,
        setup=_setup(tree), tree=tree.expr,
        bounds=bounds_text(tree, 3, op=OPS[op], continuation="fill result; then fill a and b (symbolic datum)"),
    )


def iadd_result(tree, op, mode="real", timeout=60, fixy=False):
    pa, prea, codea = data_params(tree, 1, mode=mode, prefix="a", fix_leaf_y=fixy)
    pb, preb, codeb = data_params(tree, 1, mode=mode, prefix="b", fix_leaf_y=fixy)
    body = codea + codeb + f"""
a, b = fresh(MK, 2)
a.fill(adata[0]); b.fill(bdata[0])
ja, jb = J(a), J(b)
f = 2.0
r = {OPS[op]}
r += b
if not jeq(J(a), ja): return "iadd-into-result-changed-left-operand"
if not jeq(J(b), jb): return "iadd-into-result-changed-right-operand"
jr = J(r)
b.fill(adata[0])
if not jeq(J(r), jr): return "fill-of-merged-in-operand-changed-result"
"""
    return Harness(
        f"C06/iaddres/{tree.name}/{op}/{mode}" + ("-fixy" if fixy else ""), pa + pb, " and ".join(prea + preb), body, mode=mode, timeout=timeout,
        setup=_setup(tree), tree=tree.expr,
        bounds=bounds_text(tree, 2, op=OPS[op], continuation="result += b; fill b"),
    )


# constructors relying on default arguments: two separate calls must not share state
DEFAULT_CTORS = {
    "Select": "H.Select(qb)",
    "Select.ing": "H.Select.ing(qb)",
    "Fraction": "H.Fraction(qb)",
    "Fraction.ing": "H.Fraction.ing(qb)",
    "Bin": "H.Bin(2, 0.0, 2.0, qx)",
    "Bin.ing": "H.Bin.ing(2, 0.0, 2.0, qx)",
    "SparselyBin": "H.SparselyBin(1.0, qx)",
    "SparselyBin.ing": "H.SparselyBin.ing(1.0, qx)",
    "CentrallyBin": "H.CentrallyBin([0.0, 2.0], qx)",
    "CentrallyBin.ing": "H.CentrallyBin.ing([0.0, 2.0], qx)",
    "IrregularlyBin": "H.IrregularlyBin([0.0, 1.0], qx)",
    "IrregularlyBin.ing": "H.IrregularlyBin.ing([0.0, 1.0], qx)",
    "Stack": "H.Stack([0.0, 1.0], qx)",
    "Stack.ing": "H.Stack.ing([0.0, 1.0], qx)",
    "Categorize": "H.Categorize(qc)",
    "Categorize.ing": "H.Categorize.ing(qc)",
    "Histogram": "HC.Histogram(2, 0.0, 2.0, qx)",
    "HistogramCut": "HC.HistogramCut(2, 0.0, 2.0, qx, qb)",
    "SparselyHistogram": "HC.SparselyHistogram(1.0, qx)",
    "CategorizeHistogram": "HC.CategorizeHistogram(qc)",
}

# parents that create children from a template: two parents (and the template) must stay independent
TEMPLATE_PARENTS = {
    "Bin.value": "H.Bin(2, 0.0, 2.0, qx, {t})",
    "Bin.underflow": "H.Bin(2, 0.0, 2.0, qx, H.Count(), {t}, H.Count(), H.Count())",
    "Bin.overflow": "H.Bin(2, 0.0, 2.0, qx, H.Count(), H.Count(), {t}, H.Count())",
    "Bin.nanflow": "H.Bin(2, 0.0, 2.0, qx, H.Count(), H.Count(), H.Count(), {t})",
    "SparselyBin.value": "H.SparselyBin(1.0, qx, {t})",
    "SparselyBin.nanflow": "H.SparselyBin(1.0, qx, H.Count(), {t})",
    "CentrallyBin.value": "H.CentrallyBin([0.0, 2.0], qx, {t})",
    "CentrallyBin.nanflow": "H.CentrallyBin([0.0, 2.0], qx, H.Count(), {t})",
    "IrregularlyBin.value": "H.IrregularlyBin([0.0, 1.0], qx, {t})",
    "IrregularlyBin.nanflow": "H.IrregularlyBin([0.0, 1.0], qx, H.Count(), {t})",
    "Stack.value": "H.Stack([0.0, 1.0], qx, {t})",
    "Stack.nanflow": "H.Stack([0.0, 1.0], qx, H.Count(), {t})",
    "Fraction.value": "H.Fraction(qb, {t})",
    "Categorize.value": "H.Categorize(qc, {t})",
}


def ctor_defaults(name, expr, timeout=40):
    tree = cat.Tree(name, expr)
    p, pre, code = data_params(tree, 2, mode="real", special=True)
    body = code + f"""
with NT():
    p1 = {expr}
    p2 = {expr}
j2 = J(p2)
p1.fill(data[0])
if not jeq(J(p2), j2): return "fill-of-one-instance-changed-the-other"
j1 = J(p1)
p2.fill(data[1])
if not jeq(J(p1), j1): return "fill-of-second-instance-changed-the-first"
with NT():
    p3 = {expr}
if not jeq(J(p3), j2): return "fresh-instance-not-empty"
"""
    return Harness(
        f"C06/ctor-defaults/{name}", p, " and ".join(pre), body, timeout=timeout, setup=SETUP, tree=expr, special=SPECIAL_XY,
        bounds=bounds_text(tree, 2, instances="three separate constructor calls relying on default arguments"),
    )


def ctor_template(name, tmpl, timeout=40):
    expr = tmpl.format(t="tm")
    tree = cat.Tree(name, tmpl.format(t="H.Sum(qy)"))
    p, pre, code = data_params(tree, 2, mode="real")
    body = code + f"""
with NT():
    tm = H.Sum(qy)
    p1 = {expr}
    p2 = {expr}
jt, j2 = J(tm), J(p2)
p1.fill(data[0])
if not jeq(J(tm), jt): return "fill-of-parent-changed-template"
if not jeq(J(p2), j2): return "fill-of-one-parent-changed-sibling-parent"
j1 = J(p1)
tm.fill(data[1])
if not jeq(J(p1), j1): return "fill-of-template-changed-parent"
if not jeq(J(p2), j2): return "fill-of-template-changed-second-parent"
"""
    return Harness(
        f"C06/ctor-template/{name}", p, " and ".join(pre), body, timeout=timeout, setup=SETUP, tree=expr,
        bounds=bounds_text(tree, 2, instances="two parents built from one Sum template"),
    )


EMPTY_OPS = ["a + z", "z + a", "D.combine(a, z)", "D.combine(z, a)", "D.combine(a, b)", "a + a.zero()", "a * 1.0", "z * 2.0", "D.combine(z, z2)"]


def empty_operand(tree, timeout=60, fixy=False):
    """one operand is empty (fresh, or zero()): a shortcut "x + empty is x" would hand back the operand itself"""
    pa, prea, codea = data_params(tree, 1, mode="real", prefix="a", fix_leaf_y=fixy)
    pe, pree, codee = data_params(tree, 1, mode="real", prefix="e", fix_leaf_y=fixy)
    body = codea + codee + f"""
a, b, z, z2 = fresh(MK, 4)
a.fill(adata[0]); b.fill(adata[0])
ja, jb, jz = J(a), J(b), J(z)
OPS = [{", ".join("lambda: " + o for o in EMPTY_OPS)}]
r = OPS[sel(op, {", ".join(str(i) for i in range(len(EMPTY_OPS)))})]()
if r is a or r is b or r is z or r is z2: return "result-is-one-of-the-operands"
r.fill(edata[0])
if not jeq(J(a), ja): return "fill-of-result-changed-filled-operand"
if not jeq(J(z), jz) or not jeq(J(z2), jz): return "fill-of-result-changed-empty-operand"
if not jeq(J(b), jb): return "fill-of-result-changed-other-operand"
jr = J(r)
a.fill(edata[0]); z.fill(edata[0]); z2.fill(edata[0]); b.fill(edata[0])
if not jeq(J(r), jr): return "fill-of-operand-changed-result"
r += a
if not jeq(J(z), J(z2)): return "merge-into-result-changed-an-operand"
"""
    return Harness(f"C06/empty-operand/{{}}".format(tree.name) + ("-fixy" if fixy else ""), pa + pe + [("op", "int")], " and ".join(prea + pree + [f"0 <= op <= {len(EMPTY_OPS) - 1}"]), body,
                   timeout=timeout, setup=_setup(tree), tree=tree.expr,
                   bounds=bounds_text(tree, 2, ops="; ".join(EMPTY_OPS) + " (by selector; z, z2 fresh empty trees)", continuation="fill result; fill operands; result += a"))


def harnesses(tier):
    out = []
    units = cat.unit()
    for t in units + cat.extra_unit():
        out.append(empty_operand(t))
    for t in units:
        out.append(pure(t))
        out.append(hashrepr(t))
        for op in ("add", "mul", "zero", "copy"):
            out.append(mutate_result(t, op))
        out.append(iadd_result(t, "add"))
        out.append(iadd_result(t, "copy"))
        if t.cmp_only:
            out.append(mutate_result(t, "add", mode="ieee"))
    for n, e in DEFAULT_CTORS.items():
        out.append(ctor_defaults(n, e))
    for n, e in TEMPLATE_PARENTS.items():
        out.append(ctor_template(n, e))
    slots = cat.slot()
    if tier == "thorough":
        slots = slots[::4]  # thorough tier is sized by wall time (see DESIGN.md 7.1)
    if tier == "quick":
        slots = [t for i, t in enumerate(slots) if i % 8 == 3]
    big = 60 if tier == "quick" else 240
    for t in slots + cat.deep():
        out.append(mutate_result(t, "add", timeout=big, fixy=(tier == "quick")))
        out.append(iadd_result(t, "copy", timeout=big, fixy=(tier == "quick")))
    if tier == "thorough":
        for t in slots + cat.deep():
            out.append(pure(t, timeout=120))
            out.append(mutate_result(t, "copy", timeout=big))
            out.append(mutate_result(t, "mul", timeout=big))
            out.append(mutate_result(t, "zero", timeout=120))
            out.append(iadd_result(t, "add", timeout=big))
        for t in units:
            out.append(mutate_result(t, "rmul", timeout=120))
            out.append(iadd_result(t, "mul", timeout=120))
    return out
