"""harnesses that need the *real* numpy on concrete arrays (chosen by selectors, run untraced): dtype leaks into JSON,
ulp-level agreement of a pickle clone with its original on edge probes.  Sampled inputs, stated as such."""
import catalogue as cat
from gen_common import SETUP
from run import Harness

NP_SETUP = SETUP + '''
import json as _json
import pickle
import numpy as np
import probes
DTYPES = [np.float64, np.float32, np.int64, np.int32, np.int16, np.bool_, np.uint8]
'''


def dtypes(tree, timeout=40):
    """fill.numpy from columns of several dtypes; the state must stay strict JSON and reload to the same document"""
    body = """
k = sel(k, 0, 1, 2, 3, 4, 5, 6); nb = sel(nb, 1, 2)
with NT():
    res = ""
    h = MK()
    base = [[0, 1, 3, 1, 0, 2], [1, 0, 2, 3, 1, 1]]
    for b in range(nb):
        x = np.array(base[b], dtype=DTYPES[k])
        cols = (x, (x * 2).astype(DTYPES[k]), np.array(["a", "b", "a", "b", "a", "a"]), x.astype(float))
        h.fill.numpy(cols)
    try:
        doc = h.toJson()
        txt = _json.dumps(doc, allow_nan=False)
        r = Factory.fromJsonString(h.toJsonString())
        if not jclose(r.toJson(), _json.loads(txt)): res = "reload-of-numpy-filled-state-differs"
    except Exception as e:
        res = "numpy-filled-state-not-serialisable:" + type(e).__name__
    ref = MK()
    for b in range(nb):
        for i in range(6):
            v = float(np.array(base[b], dtype=DTYPES[k])[i])
            ref.fill((v, float((np.array(base[b], dtype=DTYPES[k]) * 2).astype(DTYPES[k])[i]), ["a", "b", "a", "b", "a", "a"][i], v))
    if not res and not jclose(_json.loads(txt), ref.toJson()): res = "numpy-fill-of-typed-columns-differs-from-row-fill"
if res: return res
"""
    return Harness(f"C04/numpy-dtypes/{tree.name}", [("k", "int"), ("nb", "int")], "0 <= k <= 6 and 0 <= nb <= 1", body, timeout=timeout,
                   setup=NP_SETUP + f"MK = lambda: {tree.expr}\n", tree=tree.expr,
                   bounds="real numpy; column dtype by selector over float64/float32/int64/int32/int16/bool/uint8; one or two 6-row batches (concrete)")


def clone_probes(timeout=40):
    body = """
k = sel(k, 0, 1, 2, 3, 4, 5)
with NT():
    cfg = [(10, 0.0, 1.0), (7, -1.0 / 3.0, 2.0 / 3.0), (5, -0.001, 0.001), (10, -5.0, 5.0), (20, -1.0, 1.0), (3, 0.0, 0.3)][k]
    num, low, high = cfg
    xs = np.array(probes.edge_probes([low + i * (high - low) / num for i in range(num + 1)]))
    res = ""
    for mk in (lambda: H.Bin(num, low, high, qx0), lambda: H.CentrallyBin([low, (low + high) / 3.0, high], qx0), lambda: H.SparselyBin((high - low) / num, qx0, H.Count(), H.Count(), low),
               lambda: H.Branch(H.Count(), H.Bin(num, low, high, qx0)), lambda: H.Select(lambda a: a > -1e9, H.Bin(num, low, high, qx0))):
        h = mk()
        h.fill.numpy(xs[:3])
        c = pickle.loads(pickle.dumps(h))
        c2 = h.copy()
        for t in (h, c, c2): t.fill.numpy(xs)
        if not jeq(c.toJson(), h.toJson()): res = res or "pickle-clone-diverges-from-original-on-edge-probes:" + h.name
        if not jeq(c2.toJson(), h.toJson()): res = res or "copy-diverges-from-original-on-edge-probes:" + h.name
if res: return res
"""
    return Harness("C11/vectorised-probes", [("k", "int")], "0 <= k <= 5", body, timeout=timeout,
                   setup=NP_SETUP + "qx0 = lambda a: a\n", tree="Bin / CentrallyBin / SparselyBin / Branch / Select over 6 configurations",
                   bounds="real numpy; clone (pickle, copy) and original filled with every edge probe (edges, +-1..2 ulp, midpoints) of the configuration chosen by selector")
