"""C17 user-function wrappers preserve behaviour: named / cached / serializable / string expressions."""
from gen_common import SETUP
from run import Harness

ASSUMPTIONS = [
    "numpy.array_equal, which CachedFcn uses to compare arguments, is C code: inside the harness process histogrammar.util.np is a "
    "proxy whose array_equal is modelled for scalars as x == y (validated against the real numpy at the start of every run); "
    "every other attribute is the real numpy",
    "bare-scalar records use solver-chosen concrete values (a symbolic proxy has a __dict__, which the string-expression "
    "namespace builder would pick up); math.* calls inside expressions are outside",
]

C17_SETUP = SETUP + '''
import numpy as _realnp

class _NPProxy:
    """real numpy, except array_equal on two scalars (model: x == y)"""
    def __getattr__(self, name):
        return getattr(_realnp, name)
    @staticmethod
    def array_equal(x, y):
        if isinstance(x, (bool, int, float, str)) and isinstance(y, (bool, int, float, str)):
            return x == y
        return _realnp.array_equal(x, y)

if SYMBOLIC:
    U.np = _NPProxy()

class Rec:
    def __init__(self, **kw):
        self.__dict__.update(kw)

F1 = lambda x: 2 * x + 1
F2 = lambda x, y: x - y
F3 = lambda x, y: x if x > y else y
def _apply(order, target, name):
    ops = {"n": lambda f: U.named(name, f), "c": U.cached, "s": U.serializable}
    f = target
    for o in order:
        f = ops[o](f)
    return f
ORDERS = ["ncs", "nsc", "cns", "csn", "snc", "scn"]
'''


def orders(target, tname, timeout=40):
    body = f"""
ref = _apply(ORDERS[0], {target}, name)
other = _apply(ORDERS[p], {target}, name)
if type(other) is not type(ref): return "class-depends-on-order"
if other.name != ref.name: return "name-depends-on-order"
if other.name != name: return "name-lost"
if not (other == ref): return "wrappers-unequal"
if not isinstance(other, U.CachedFcn): return "cached-lost"
r = raises(lambda: U.named("second", other))
if r != "ValueError": return "second-name-accepted:" + str(r)
if U.cached(other) is not other: return "cached-rewraps"
if U.serializable(other) is not other: return "serializable-rewraps"
v = other(3.5) if {tname!r} == "fn" else other(Rec(x=3.5))
if v != 8.0: return "wrapped-value-wrong"
"""
    return Harness(f"C17/orders/{tname}", [("p", "int"), ("name", "str")], "0 <= p <= 5 and len(name) <= 3", body,
                   timeout=timeout, setup=C17_SETUP, tree=target, bounds="all 6 application orders (symbolic index); name symbolic str len<=3")


def cached_calls(fname, arity, kind, timeout=60):
    """three calls with symbolic arguments (equalities among them are the solver's choice)"""
    ty = "float" if kind == "float" else "int"
    params = []
    calls = []
    for i in range(1, 4):
        names = [f"a{i}", f"b{i}"][:arity]
        params += [(n, ty) for n in names]
        calls.append(names)
    body = f"""
f = U.cached({fname})
g = {fname}
"""
    for i, names in enumerate(calls):
        args = ", ".join(names)
        body += f"""
r = f({args})
if r != g({args}): return "call-{i + 1}-returned-stale-or-wrong-value"
"""
    if arity == 2:
        body += """
r = f(a1, y=b2)
if r != g(a1, y=b2): return "keyword-call-wrong"
r = f(a1, y=b3)
if r != g(a1, y=b3): return "keyword-call-after-change-wrong"
r = f(a2, b3)
if r != g(a2, b3): return "positional-after-keyword-wrong"
"""
    return Harness(f"C17/cached/{fname}/{kind}", params, "True", body, timeout=timeout, setup=C17_SETUP, tree=f"cached({fname})",
                   bounds=f"3 positional calls (+3 keyword/positional mixes for arity 2) with symbolic {ty} arguments")


EXPRS = [
    ("x + y", "lambda x, y: x + y"),
    ("x - y", "lambda x, y: x - y"),
    ("x * 2", "lambda x, y: x * 2"),
    ("x / 2", "lambda x, y: x / 2"),
    ("-x", "lambda x, y: -x"),
    ("(x + y) * 2 - 1", "lambda x, y: (x + y) * 2 - 1"),
    ("x > y", "lambda x, y: x > y"),
    ("x >= y and y > 0", "lambda x, y: x >= y and y > 0"),
    ("x < y or y < 0", "lambda x, y: x < y or y < 0"),
    ("not x > y", "lambda x, y: not x > y"),
    ("abs(x)", "lambda x, y: abs(x)"),
    ("abs(x - y)", "lambda x, y: abs(x - y)"),
    ("x if x > y else y", "lambda x, y: x if x > y else y"),
    ("max(x, y)", "lambda x, y: max(x, y)"),
    ("min(x, y) + 1", "lambda x, y: min(x, y) + 1"),
    ("x == y", "lambda x, y: x == y"),
    ("x != y", "lambda x, y: x != y"),
    ("x * y", "lambda x, y: x * y"),
    ("2 * x + 1 > y", "lambda x, y: 2 * x + 1 > y"),
    ("(x > 0) == (y > 0)", "lambda x, y: (x > 0) == (y > 0)"),
    # round 5: record fields referenced from a nested scope of the expression (generator expression, lambda)
    ("sum(x * t for t in (y, 1.0))", "lambda x, y: sum(x * t for t in (y, 1.0))"),
    ("(lambda t: t + x)(y)", "lambda x, y: (lambda t: t + x)(y)"),
    ("max(t - y for t in (x, 2.0))", "lambda x, y: max(t - y for t in (x, 2.0))"),
]


def string_expr(i, expr, fn, timeout=60):
    numeric = not any(op in expr for op in (">", "<", "==", "!=", " and ", " or ", "not "))
    agg = "H.Sum" if numeric else "H.Select"
    body = f"""
pf = {fn}
u = U.UserFcn({expr!r})
want = pf(x, y)
got = u(dict(x=x, y=y))
if got != want: return "dict-record-differs"
got = u(Rec(x=x, y=y))
if got != want: return "attribute-record-differs"
got = u(dict(x=x, y=y))
if got != want: return "second-call-differs"
with NT():
    a = {agg}({expr!r})
    b = {agg}(lambda d: pf(d["x"], d["y"]))
    a._checkForCrossReferences(); b._checkForCrossReferences()
for rec in (dict(x=x, y=y), dict(x=y, y=x)):
    a.fill(rec); b.fill(rec)
ja = J(a)["data"]; jb = J(b)["data"]
ja = dict((k, v) for k, v in ja.items() if k != "name"); jb = dict((k, v) for k, v in jb.items() if k != "name")
if not jeq(ja, jb): return "aggregator-filled-differently"
"""
    return Harness(f"C17/expr/{i:02d}", [("x", "float"), ("y", "float")], "True", body, timeout=timeout, setup=C17_SETUP,
                   tree=expr, bounds=f"expression {expr!r} vs {fn}; x, y symbolic reals; dict and attribute records; {agg} filled with 2 records")


def mixed_shapes(timeout=60):
    """one wrapper sees records of differing shape in sequence: every call must equal the plain function on that record;
    a record that lacks a field must raise (never silently reuse an earlier record's value)"""
    body = """
u = U.UserFcn("x + 1")
s0 = sel(k, 0.0, 1.5, -2.0)
seq = [dict(x=a), s0, Rec(x=b), dict(x=a, extra=b), s0, dict(x=b)]
for i, rec in enumerate(seq):
    want = (rec["x"] if isinstance(rec, dict) else (rec.x if isinstance(rec, Rec) else rec)) + 1
    if u(rec) != want: return "call-%d-of-mixed-sequence-wrong" % i
v = U.UserFcn("x + y")
if v(dict(x=a, y=b)) != a + b: return "two-field-record-wrong"
r = raises(v, dict(x=a))
if r is None: return "record-lacking-a-field-silently-evaluated"
r = raises(v, Rec(x=b))
if r is None: return "attribute-record-lacking-a-field-silently-evaluated"
if v(dict(x=b, y=a)) != a + b: return "call-after-failed-call-wrong"
with NT():
    h1 = H.Sum("x + 1"); h2 = H.Sum(lambda d: (d["x"] if isinstance(d, dict) else d) + 1)
    h1._checkForCrossReferences(); h2._checkForCrossReferences()
for rec in (dict(x=a), s0, dict(x=b)):
    h1.fill(rec); h2.fill(rec)
if h1.sum != h2.sum or h1.entries != h2.entries: return "aggregator-over-mixed-records-differs"
# a second, fresh wrapper of the same expression text must not inherit anything from the first one
u2 = U.UserFcn("x + 1")
if u2(s0) != s0 + 1: return "fresh-wrapper-of-same-expression-sees-earlier-records"
if u2(dict(x=b)) != b + 1: return "fresh-wrapper-wrong-on-dict"
r = raises(U.UserFcn("x + y"), dict(x=a))
if r is None: return "fresh-wrapper-silently-reuses-a-field-of-an-earlier-record"
"""
    return Harness("C17/expr/mixed-shapes", [("a", "float"), ("b", "float"), ("k", "int")], "0 <= k <= 2", body, timeout=timeout,
                   setup=C17_SETUP, tree="UserFcn('x + 1'), UserFcn('x + y')",
                   bounds="dict / bare scalar (concrete by selector) / attribute records interleaved through one wrapper; a, b symbolic reals")


def cached_arrays(timeout=40):
    """cached() on numpy batches (real numpy; concrete arrays picked by selectors, run untraced): equal-looking but different
    batches (within 1e-9, overlapping views of one buffer, broadcast-equal constants, other length) must be recomputed"""
    body = """
import numpy as np
k1 = sel(k1, 0, 1, 2, 3, 4, 5); k2 = sel(k2, 0, 1, 2, 3, 4, 5)
with NT():
    buf = np.array([1.0, 2.0, 3.0, 4.0, 5.0, 6.0])
    def batch(k):
        return [buf[0:3], buf[0:3] + 1e-9, buf[1:4], buf[0::2], np.array([3.0, 3.0, 3.0]), np.array([3.0])][k]
    f = lambda a: a * 2.0 + 1.0
    g = U.cached(f)
    res = ""
    for kk in (k1, k2, k1):
        a = batch(kk)
        got, want = g(a), f(a)
        if np.shape(got) != np.shape(want) or not np.array_equal(got, want): res = res or "cached-batch-result-stale-or-wrong:%d" % kk
    h1 = H.Sum(U.cached(lambda a: a)); h2 = H.Sum(lambda a: a)
    for kk in (k1, k2):
        h1.fill.numpy(batch(kk)); h2.fill.numpy(batch(kk))
    if h1.sum != h2.sum or h1.entries != h2.entries: res = res or "aggregator-with-cached-quantity-differs-over-batches"
if res: return res
"""
    return Harness("C17/cached/arrays", [("k1", "int"), ("k2", "int")], "0 <= k1 <= 5 and 0 <= k2 <= 5", body, timeout=timeout,
                   setup=C17_SETUP, tree="cached(lambda a: a*2+1) on numpy batches",
                   bounds="call sequence (k1, k2, k1) over 6 concrete numpy batches: slice, slice+1e-9, overlapping slice, strided view, constant, shorter constant")


def scalar_expr(timeout=40):
    body = """
vals = [0.0, 1.5, -2.0, 3.0]
v = sel(k, 0.0, 1.5, -2.0, 3.0)
k = sel(k, 0, 1, 2, 3)
for e, pf in ((“x + 1”, lambda x: x + 1), ("2 * t", lambda t: 2 * t), ("abs(q) > 1", lambda q: abs(q) > 1), ("-z", lambda z: -z)):
    u = U.UserFcn(e)
    if u(v) != pf(v): return "bare-scalar-differs:" + e
    if u(vals[(k + 1) % 4]) != pf(vals[(k + 1) % 4]): return "bare-scalar-second-call-differs:" + e
""".replace("“", '"').replace("”", '"')
    return Harness("C17/expr/scalar", [("k", "int")], "0 <= k <= 3", body, timeout=timeout, setup=C17_SETUP, tree="single-variable expressions",
                   bounds="bare scalar records: concrete values chosen by selector k in 0..3 (explored, not exhausted)")


def scalar_expr_modules(timeout=40):
    """expressions that call math / numpy functions on a field whose name is also an attribute of those modules
    (size, power, angle, real, std): bare scalars and dict records must both evaluate like the plain function"""
    body = """
import math
k = sel(k, 0, 1, 2); e = sel(e, 0, 1, 2, 3, 4, 5, 6)
with NT():
    v = [0.0, 1.5, 4.0][k]
    CASES = [("math.sqrt(size) + 1", "size", lambda t: math.sqrt(t) + 1), ("np.sqrt(power)", "power", lambda t: math.sqrt(t)),
             ("numpy.abs(angle) + 1", "angle", lambda t: abs(t) + 1), ("math.floor(real)", "real", lambda t: math.floor(t)),
             ("sqrt(std) * 2", "std", lambda t: math.sqrt(t) * 2), ("math.exp(log1)", "log1", lambda t: math.exp(t)),
             ("np.log(size + 1)", "size", lambda t: math.log(t + 1))]
    expr, field, pf = CASES[e]
    res = ""
    U.np = _realnp  # concrete run: the real module, not the array_equal proxy (restored below)
    for rec in (v, {field: v}, Rec(**{field: v}), v):
        try:
            got = U.UserFcn(expr)(rec)
            if abs(float(got) - pf(v)) > 1e-12: res = res or "module-function-expression-differs:" + expr
        except Exception as ex:
            res = res or "module-function-expression-raises:%s:%s" % (expr, type(ex).__name__)
    a = H.Sum(expr); b = H.Sum(lambda d: pf(d))
    try:
        a.fill(v); a.fill(v + 1.0)
    except Exception as ex:
        res = res or "aggregator-over-expression-cannot-be-filled:%s:%s" % (expr, type(ex).__name__)
    b.fill(v); b.fill(v + 1.0)
    if not res and (abs(a.sum - b.sum) > 1e-12 or a.entries != b.entries): res = "aggregator-filled-differently:" + expr
    if SYMBOLIC: U.np = _NPProxy()
if res: return res
"""
    return Harness("C17/expr/module-functions", [("k", "int"), ("e", "int")], "0 <= k <= 2 and 0 <= e <= 6", body, timeout=timeout, setup=C17_SETUP,
                   tree="7 expressions calling math./np./numpy. functions on a field named like a module attribute",
                   bounds="concrete values by selector (untraced); bare scalar, dict and attribute records; Sum filled twice")


def pre_checks(tier, workdir):
    """validate the one-function numpy model (array_equal on scalars) against the real numpy"""
    import itertools

    import numpy as np

    vals = [0, 1, 1.0, 2.5, -0.0, 0.0, float("nan"), float("inf"), True, False, "a", "b"]
    bad = []
    for x, y in itertools.product(vals, vals):
        try:
            real = bool(np.array_equal(x, y))
        except Exception:  # noqa: BLE001
            continue
        if real != (x == y):
            bad.append((x, y))
    if bad:
        raise SystemExit("HARNESS-ERROR: numpy.array_equal scalar model disagrees with numpy on %r" % bad[:5])
    return {"evaluations": len(vals) ** 2, "decided": 0, "samples": [{"model": "np.array_equal(x,y) == (x == y) on scalars", "pairs_checked": len(vals) ** 2}]}


def harnesses(tier):
    out = [orders("F1", "fn"), orders('"2 * x + 1"', "str")]
    for fname, arity in (("F1", 1), ("F2", 2), ("F3", 2)):
        out.append(cached_calls(fname, arity, "float"))
        out.append(cached_calls(fname, arity, "int"))
    for i, (e, f) in enumerate(EXPRS):
        out.append(string_expr(i, e, f, timeout=60 if tier == "quick" else 180))
    out.append(scalar_expr())
    out.append(scalar_expr_modules())
    out.append(mixed_shapes())
    out.append(cached_arrays())
    return out
