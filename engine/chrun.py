"""Analyse the harness functions of one generated module with CrossHair (in-process API).

usage: chrun.py MODE TIMEOUT MODULE_PATH OUT_JSON FN [FN...]

For every FN prints nothing; writes OUT_JSON = {fn: {state, message, call, returns, paths,
confirmed_paths, z3_checks, z3_time, cpu_s, exhausted}}.  state is CrossHair's own
MessageType name (CONFIRMED, CANNOT_CONFIRM, PRE_UNSAT, POST_FAIL, EXEC_ERR, POST_ERR, ...).
"""
import collections
import importlib.util
import json
import os
import re
import sys
import time

os.environ["VERIF_SYMBOLIC"] = "1"
HERE = os.path.dirname(os.path.abspath(__file__))
sys.path.insert(0, HERE)


def main():
    mode, timeout, path, out = sys.argv[1], float(sys.argv[2]), sys.argv[3], sys.argv[4]
    fns = sys.argv[5:]
    sys.path.insert(0, os.path.dirname(os.path.abspath(path)))

    import z3

    stats = {"n": 0, "t": 0.0}
    _check = z3.Solver.check

    def timed_check(self, *a):
        t0 = time.perf_counter()
        try:
            return _check(self, *a)
        finally:
            stats["n"] += 1
            stats["t"] += time.perf_counter() - t0

    z3.Solver.check = timed_check

    import crosshair.core_and_libs as C
    from crosshair.options import AnalysisOptionSet
    from crosshair.pure_importer import prefer_pure_python_imports
    from crosshair.statespace import MessageType

    import chmodel

    chmodel.install(mode, os.environ.get("VERIF_SPECIAL_RE") or None)

    with prefer_pure_python_imports():
        spec = importlib.util.spec_from_file_location(os.path.basename(path)[:-3], path)
        mod = importlib.util.module_from_spec(spec)
        sys.modules[spec.name] = mod
        spec.loader.exec_module(mod)

        result = {}
        for fn in fns:
            st = collections.Counter()
            opts = AnalysisOptionSet(
                per_condition_timeout=timeout,
                per_path_timeout=max(timeout / 2.0, 5.0),
                report_all=True,
                max_uninteresting_iterations=sys.maxsize,
                stats=st,
            )
            n0, t0z = stats["n"], stats["t"]
            c0 = time.process_time()
            msgs = C.run_checkables(C.analyze_function(getattr(mod, fn), opts))
            rec = {
                "paths": st.get("num_paths", 0),
                "z3_checks": stats["n"] - n0,
                "z3_time": round(stats["t"] - t0z, 3),
                "cpu_s": round(time.process_time() - c0, 3),
                "stats": {k: v for k, v in st.items() if isinstance(v, (int, float))},
            }
            if not msgs:
                rec.update(state="NO_MESSAGE", message="")
            else:
                # worst message wins
                m = max(msgs, key=lambda m: m.state)
                rec.update(state=m.state.name, message=m.message)
                mm = re.search(r"when calling (\w+\(.*)$", m.message, re.S)
                if mm:
                    call = mm.group(1)
                    k = call.rfind(" (which returns ")
                    if k >= 0:
                        rec["returns"] = call[k + len(" (which returns ") : -1]
                        call = call[:k]
                    rec["call"] = call
                if m.traceback:
                    rec["traceback"] = m.traceback[-1500:]
            result[fn] = rec
    with open(out, "w") as f:
        json.dump(result, f)


if __name__ == "__main__":
    main()
