"""Tree catalogue, regenerated on every run from Factory.registered.

A tree is a python *expression string* over the harness prelude (``H``, ``qx``, ``qy``, ``qc``,
``qn``, ``qb``); records are tuples ``(x, y, c, n)``:
   d[0] x : float, primary quantity            (symbolic)
   d[1] y : float, quantity of nested leaves    (symbolic)
   d[2] c : str/None category                   (finite alphabet, chosen by a symbolic selector)
   d[3] n : float Bag key                       (finite alphabet, chosen by a symbolic selector)
A registered primitive without a recipe makes catalogue construction fail loudly.
"""
import re

# quantity helpers are defined in SETUP (placed in every harness module)
SETUP = '''
qc = lambda d: d[2]
qn = lambda d: d[3]
qb = lambda d: d[0] > 0.5
'''

# leaf recipes: {q} = quantity function name
LEAVES = {
    "Count": "H.Count()",
    "Sum": "H.Sum({q})",
    "Average": "H.Average({q})",
    "Deviate": "H.Deviate({q})",
    "Minimize": "H.Minimize({q})",
    "Maximize": "H.Maximize({q})",
    "Bag": 'H.Bag(qn, "N")',
}

# container recipes: slot name -> expression with {c} (child in that slot), {q} quantity
CONTAINERS = {
    "Bin": {
        "value": "H.Bin(2, 0.0, 2.0, {q}, {c})",
        "underflow": "H.Bin(2, 0.0, 2.0, {q}, H.Count(), {c}, H.Count(), H.Count())",
        "overflow": "H.Bin(2, 0.0, 2.0, {q}, H.Count(), H.Count(), {c}, H.Count())",
        "nanflow": "H.Bin(2, 0.0, 2.0, {q}, H.Count(), H.Count(), H.Count(), {c})",
    },
    "SparselyBin": {
        "value": "H.SparselyBin(1.0, {q}, {c})",
        "nanflow": "H.SparselyBin(1.0, {q}, H.Count(), {c})",
    },
    "CentrallyBin": {
        "value": "H.CentrallyBin([0.0, 2.0], {q}, {c})",
        "nanflow": "H.CentrallyBin([0.0, 2.0], {q}, H.Count(), {c})",
    },
    "IrregularlyBin": {
        "value": "H.IrregularlyBin([0.0, 1.0], {q}, {c})",
        "nanflow": "H.IrregularlyBin([0.0, 1.0], {q}, H.Count(), {c})",
    },
    "Stack": {
        "value": "H.Stack([0.0, 1.0], {q}, {c})",
        "nanflow": "H.Stack([0.0, 1.0], {q}, H.Count(), {c})",
    },
    "Fraction": {"value": "H.Fraction(qb, {c})"},
    "Select": {"cut": "H.Select(qb, {c})"},
    "Categorize": {"value": "H.Categorize(qc, {c})"},
    "Label": {"pairs": "H.Label(a={c}, b={c})"},
    "UntypedLabel": {"pairs": "H.UntypedLabel(a={c}, b=H.Count())"},
    "Index": {"values": "H.Index({c}, {c})"},
    "Branch": {"values": "H.Branch({c}, H.Count())"},
}

ARITH = ("Sum", "Average", "Deviate", "Bin(", "SparselyBin", "Fraction", "Select")  # trees without these compare/copy floats only

DEEP = [
    ("Select>Bin>Deviate", "H.Select(qb, H.Bin(2, 0.0, 2.0, qx, H.Deviate(qy)))"),
    ("Categorize>SparselyBin>Average", "H.Categorize(qc, H.SparselyBin(1.0, qx, H.Average(qy)))"),
    ("Bin>Bin>Count", "H.Bin(2, 0.0, 2.0, qx, H.Bin(2, 0.0, 2.0, qy, H.Count()))"),
    ("Label>Stack>Bin", "H.Label(a=H.Stack([0.0, 1.0], qx, H.Bin(2, 0.0, 2.0, qy)), b=H.Stack([0.5], qx, H.Bin(2, 0.0, 2.0, qy)))"),
    ("UntypedLabel>Fraction>IrregularlyBin>Sum", 'H.UntypedLabel(f=H.Fraction(qb, H.IrregularlyBin([0.0, 1.0], qx, H.Sum(qy))), g=H.Bag(qn, "N"))'),
    ("Histogram", "HC.Histogram(2, 0.0, 2.0, qx)"),
    ("HistogramCut", "HC.HistogramCut(2, 0.0, 2.0, qx, qb)"),
    ("Profile", "HC.Profile(2, 0.0, 2.0, qx, qy)"),
    ("ProfileErr", "HC.ProfileErr(2, 0.0, 2.0, qx, qy)"),
    ("SparselyHistogram", "HC.SparselyHistogram(1.0, qx)"),
    ("SparselyProfile", "HC.SparselyProfile(1.0, qx, qy)"),
    ("SparselyProfileErr", "HC.SparselyProfileErr(1.0, qx, qy)"),
    ("TwoDimensionallyHistogram", "HC.TwoDimensionallyHistogram(2, 0.0, 2.0, qx, 2, 0.0, 2.0, qy)"),
    ("TwoDimensionallySparselyHistogram", "HC.TwoDimensionallySparselyHistogram(1.0, qx, 1.0, qy)"),
]


class Tree:
    def __init__(self, name, expr):
        self.name = name
        self.expr = expr
        self.uses_x = bool(re.search(r"\bq[xb]\b", expr))
        self.uses_y = bool(re.search(r"\bqy\b", expr))
        self.uses_c = bool(re.search(r"\bqc\b", expr))
        self.uses_n = bool(re.search(r"\bqn\b", expr))
        # comparison-only trees (no FP arithmetic on data with unit weights) can run in ieee mode
        self.cmp_only = not any(a in expr for a in ARITH)
        # fields routed through a sparse index: their range is bounded in harness preconditions
        self.sparse = set(m[-1] for m in re.findall(r"Sparsely\w*\(1\.0, q([xy])", expr))
        if "TwoDimensionallySparselyHistogram" in expr:
            self.sparse |= {"x", "y"}
        # y feeds only leaf arithmetic (never routing): harnesses about aliasing/routing may fix it
        n_y = len(re.findall(r"\bqy\b", expr))
        n_leaf_y = len(re.findall(r"H\.(?:Sum|Average|Deviate|Minimize|Maximize)\(qy\)", expr))
        self.y_leaf_only = n_y > 0 and n_y == n_leaf_y
        self.prims = sorted(set(re.findall(r"HC?\.([A-Z][A-Za-z]+)\(", expr)))

    def __repr__(self):
        return "Tree(%s)" % self.name


def registered():
    import histogrammar  # noqa: F401
    from histogrammar.defs import Factory

    return sorted(Factory.registered)


def check_recipes():
    missing = [p for p in registered() if p not in LEAVES and p not in CONTAINERS]
    if missing:
        raise SystemExit("HARNESS-ERROR: registered primitives without a catalogue recipe: %s" % missing)


def leaf(name, q="qx"):
    return LEAVES[name].format(q=q)


def unit():
    """Each primitive alone (containers hold a Count, collections hold Sums)."""
    check_recipes()
    out = []
    for p in registered():
        if p in LEAVES:
            out.append(Tree(p, leaf(p, "qx")))
        else:
            c = "H.Sum(qy)" if p in ("Label", "Index", "UntypedLabel", "Branch") else "H.Count()"
            slot = "value" if "value" in CONTAINERS[p] else sorted(CONTAINERS[p])[0]
            out.append(Tree(p, CONTAINERS[p][slot].format(q="qx", c=c)))
    return out


# further one-level trees that the per-primitive recipes do not reach: selections whose quantity is a number
# (weight factor, may be 0, negative, NaN or +-inf) rather than a bool, and containers holding a non-Count leaf
EXTRA_UNIT = [
    ("Select:float", "H.Select(qx, H.Sum(qy))"),
    ("Fraction:float", "H.Fraction(qx, H.Sum(qy))"),
    ("Stack:Minimize", "H.Stack([0.0, 1.0], qx, H.Minimize(qy))"),
    ("Categorize:Average", "H.Categorize(qc, H.Average(qx))"),
]


def extra_unit():
    return [Tree(n, e) for n, e in EXTRA_UNIT]


def slot(children=None, parents=None):
    """Every child/flow slot x every primitive as its occupant."""
    check_recipes()
    out = []
    for p in sorted(CONTAINERS):
        if parents and p not in parents:
            continue
        for s, tmpl in sorted(CONTAINERS[p].items()):
            for ch in registered():
                if children and ch not in children:
                    continue
                if ch in LEAVES:
                    c = leaf(ch, "qy")
                else:
                    cslot = "value" if "value" in CONTAINERS[ch] else sorted(CONTAINERS[ch])[0]
                    c = CONTAINERS[ch][cslot].format(q="qy", c="H.Count()")
                out.append(Tree("%s.%s=%s" % (p, s, ch), tmpl.format(q="qx", c=c)))
    return out


def deep():
    return [Tree(n, e) for n, e in DEEP]


def by_name(name):
    for t in unit() + slot() + deep():
        if t.name == name:
            return t
    raise KeyError(name)
