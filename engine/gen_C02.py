"""C02 fill computes the specified function of the weighted multiset (E1 part; kernels: kenc)."""
import catalogue as cat
from gen_common import SETUP, SPECIAL_XY, bounds_text, data_params
from run import Harness

ASSUMPTIONS = [
    "oracle = engine/refsem.py (independent evaluation from the specification, exact over the reals in real mode)",
    "catalogue bin configurations are dyadic, so exact-real edges and float edges coincide; non-dyadic edge placement is "
    "decided by the kernel encoder (IEEE) obligations",
]


def _setup(tree):
    return SETUP + "import refsem\n" + f"MK = lambda: {tree.expr}\n"


def spec(tree, n, mode, weights, special=False, timeout=60):
    params, pre, code = data_params(tree, n, weights=weights, special=special, mode=mode, wsign="any")
    body = code + """
a, b, tmpl = fresh(MK, 3)
stream = list(zip(data, ws))
for d, w in stream: a.fill(d, w)
if not refsem.same(refsem.real_state(a), refsem.ref_state(tmpl, stream)): return "state-vs-spec"
for d, w in reversed(stream): b.fill(d, w)
if not jeq(J(a), J(b)): return "fill-order"
"""
    tag = ("w" if weights else "") + ("s" if special else "")
    return Harness(
        f"C02/spec/{tree.name}/n{n}/{mode}{tag}",
        params,
        " and ".join(pre),
        body,
        mode=mode,
        timeout=timeout,
        setup=_setup(tree),
        tree=tree.expr,
        special=SPECIAL_XY if special else None,
        bounds=bounds_text(
            tree,
            n,
            weights="symbolic finite, any sign (non-positive rows must be ignored)" if weights else "1.0",
            data="any float64 incl. NaN/inf/-0.0" if mode == "ieee" else ("finite reals + nan/+inf/-inf" if special else "finite reals"),
        ),
    )


def perm3(tree, mode, timeout=90):
    params, pre, code = data_params(tree, 3, mode=mode)
    body = code + """
hs = fresh(MK, 6)
orders = [(0, 1, 2), (0, 2, 1), (1, 0, 2), (1, 2, 0), (2, 0, 1), (2, 1, 0)]
for hh, o in zip(hs, orders):
    for i in o: hh.fill(data[i], ws[i])
j0 = J(hs[0])
for hh in hs[1:]:
    if not jeq(j0, J(hh)): return "permutation"
"""
    return Harness(
        f"C02/perm3/{tree.name}/{mode}", params, " and ".join(pre), body, mode=mode, timeout=timeout,
        setup=_setup(tree), tree=tree.expr, bounds=bounds_text(tree, 3, permutations="all 6"),
    )


def nonpositive(tree, mode, timeout=40):
    """A fill whose weight is not > 0 (symbolic: 0, -0.0, negative, -inf, NaN in ieee; <= 0 plus concrete NaN/-inf in real)."""
    params, pre, code = data_params(tree, 2, mode=mode)
    params = params + [("wz", "float")]
    pre = pre + ["not (wz > 0.0)"]
    body = code + """
a = fresh(MK, 1)[0]
a.fill(data[0], 1.0)
before = J(a)
a.fill(data[1], wz)
if not jeq(before, J(a)): return "nonpositive-weight-changed-state"
a.fill(data[1], NAN)
if not jeq(before, J(a)): return "nan-weight-changed-state"
a.fill(data[1], -INF)
if not jeq(before, J(a)): return "neginf-weight-changed-state"
a.fill(data[1], -0.0)
if not jeq(before, J(a)): return "negzero-weight-changed-state"
"""
    return Harness(
        f"C02/nonpos/{tree.name}/{mode}", params, " and ".join(pre), body, mode=mode, timeout=timeout,
        setup=_setup(tree), tree=tree.expr, bounds=bounds_text(tree, 2, weight="symbolic with not(w > 0)"),
    )


def harnesses(tier):
    out = []
    units = cat.unit()
    for t in units:
        out.append(spec(t, 2, "real", weights=True))
        if t.cmp_only:
            out.append(spec(t, 2, "ieee", weights=False))
            out.append(nonpositive(t, "ieee"))
        else:
            out.append(nonpositive(t, "real"))
        if t.uses_x and not t.cmp_only:
            out.append(spec(t, 2, "real", weights=False, special=True))
    for t in cat.extra_unit():
        out.append(spec(t, 2, "real", weights=True, timeout=90))
        out.append(spec(t, 2, "real", weights=False, special=True, timeout=90))
        out.append(nonpositive(t, "real"))
    slots = cat.slot()
    if tier == "thorough":
        slots = slots[::2]  # thorough tier is sized by wall time (see DESIGN.md 7.1)
    if tier == "quick":
        slots = [t for i, t in enumerate(slots) if i % 4 == 1]
    for t in slots:
        out.append(spec(t, 2, "real", weights=False))
    for t in cat.deep():
        out.append(spec(t, 2, "real", weights=False))
    if tier == "thorough":
        for t in units:
            out.append(perm3(t, "real"))
            out.append(spec(t, 3, "real", weights=False, timeout=180))
            if t.cmp_only:
                out.append(spec(t, 3, "ieee", weights=False, timeout=180))
        for t in slots + cat.deep():
            out.append(nonpositive(t, "real", timeout=60))
            out.append(spec(t, 2, "real", weights=True, timeout=180))
    return out


def pre_checks(tier, workdir):
    import kernels

    return kernels.run_C02(tier, workdir)
