"""Parallel driver: generate harness modules, decide them with CrossHair (chrun.py), replay
counterexamples on the unpatched code, apply known findings, write evidence.

usage: run.py <Cxx> --tier quick|thorough [--only substr] [--keep]
       run.py <Cxx> --replay <path>
Exit: 0 = nothing unlisted refuted; 1 = VIOLATION printed; 2 = machinery failure.
"""
import argparse
import concurrent.futures as cf
import importlib
import json
import os
import re
import shutil
import subprocess
import sys
import tempfile
import textwrap
import time

HERE = os.path.dirname(os.path.abspath(__file__))
VERIF = os.path.dirname(HERE)
PY = os.path.join(os.environ.get("VERIF_VENV") or os.path.join(VERIF, ".venv"), "bin", "python")
REPO = os.environ.get("VERIF_REPO", "/repo").rstrip("/") + "/"
sys.path.insert(0, HERE)

NCPU = int(os.environ.get("VERIF_JOBS", "0")) or max(1, min(16, os.cpu_count() or 1))


# ----------------------------------------------------------------------------- harness model
class Harness:
    """One symbolic obligation.

    hid     stable id (used in known_findings.json and replay file names)
    params  list of (name, type-annotation-string)
    pre     precondition expression over params
    body    python statements; may ``return "<label>"`` to signal a failed assertion;
            falls through to the end when every assertion held
    mode    'real' | 'ieee'
    timeout per-condition CPU budget for CrossHair (seconds)
    bounds  free text: the bounds this harness quantifies over
    setup   module-level python (helper defs) placed before body
    """

    def __init__(self, hid, params, pre, body, mode="real", timeout=30, bounds="", setup="", tree="", special=None):
        self.hid = hid
        self.params = params
        self.pre = pre or "True"
        self.body = textwrap.dedent(body).strip("\n")
        self.mode = mode
        self.timeout = timeout
        self.bounds = bounds
        self.setup = textwrap.dedent(setup).strip("\n")
        self.tree = tree
        self.special = special  # regex over argument names that also range over nan/+-inf (real mode)

    def source(self):
        names = ", ".join(n for n, _ in self.params)
        typed = ", ".join(f"{n}: {t}" for n, t in self.params)
        body = textwrap.indent(self.body, "    ")
        return (
            "import sys\n"
            f"sys.path.insert(0, {HERE!r})\n"
            "from vp import *\n\n"
            f"{self.setup}\n\n"
            f"def body(T, {names}):\n{body}\n"
            '    return "REACHED" if T else ""\n\n'
            f"def h({typed}) -> str:\n"
            f'    """\n    pre: {self.pre}\n    post: _ == ""\n    """\n'
            f"    return body(False, {names})\n\n"
            f"def reach({typed}) -> str:\n"
            f'    """\n    pre: {self.pre}\n    post: _ != "REACHED"\n    """\n'
            f"    return body(True, {names})\n"
        )


def safe(hid):
    return re.sub(r"[^A-Za-z0-9_]", "_", hid)


# ----------------------------------------------------------------------------- one harness
REPLAY_TAIL = """

if __name__ == "__main__":
    import traceback
    try:
        _r = {call}
    except Exception as _e:
        traceback.print_exc()
        print("REPLAY-RESULT: EXC:" + type(_e).__name__)
        sys.exit(1)
    print("REPLAY-RESULT: " + repr(_r))
    sys.exit(0 if _r in ("", "REACHED") else 1)
"""

PROFILE_TAIL = """

if __name__ == "__main__":
    import sys as _s
    _seen = set()
    def _prof(frame, event, arg):
        if event == "call":
            fn = frame.f_code.co_filename
            if fn.startswith(%r):
                _seen.add(fn[%d:] + ":" + frame.f_code.co_qualname)
    _s.setprofile(_prof)
    try:
        {call}
    except Exception:
        pass
    _s.setprofile(None)
    import json as _j
    print("FUNCS: " + _j.dumps(sorted(_seen)))
"""


def plain_env():
    env = dict(os.environ)
    env.pop("VERIF_SYMBOLIC", None)
    env["PYTHONDONTWRITEBYTECODE"] = "1"
    return env


def run_replay_source(src_path, timeout=120):
    try:
        p = subprocess.run([PY, src_path], capture_output=True, text=True, timeout=timeout, env=plain_env())
    except subprocess.TimeoutExpired:
        return None, "replay timeout"
    m = re.search(r"REPLAY-RESULT: (.*)", p.stdout)
    return (m.group(1).strip() if m else None), (p.stdout + p.stderr)[-3000:]


def decide(h, workdir, prop):
    """Run one harness end to end; returns a result dict."""
    t0 = time.time()
    mod = os.path.join(workdir, "h_" + safe(h.hid) + ".py")
    src = h.source()
    with open(mod, "w") as f:
        f.write(src)
    out = mod[:-3] + ".json"
    res = {
        "id": h.hid,
        "mode": h.mode,
        "bounds": h.bounds,
        "tree": h.tree,
        "pre": h.pre,
        "timeout_s": h.timeout,
        "nonfinite_args": h.special or "",
    }
    env = dict(os.environ)
    env["PYTHONDONTWRITEBYTECODE"] = "1"
    env["VERIF_SPECIAL_RE"] = h.special or ""
    env["PYTHONHASHSEED"] = str(int(os.environ.get("VERIF_SEED", "0")) % 4294967295)
    try:
        p = subprocess.run(
            [PY, os.path.join(HERE, "chrun.py"), h.mode, str(h.timeout), mod, out, "reach", "h"],
            capture_output=True,
            text=True,
            timeout=h.timeout * 2.5 + 90,
            env=env,
        )
        err = p.stderr[-3000:]
    except subprocess.TimeoutExpired:
        res.update(status="UNKNOWN", detail="wall timeout", wall_s=round(time.time() - t0, 2))
        return res
    if not os.path.exists(out):
        res.update(status="ERROR", detail="engine crashed: " + err[-900:], wall_s=round(time.time() - t0, 2))
        return res
    r = json.load(open(out))
    rh, rr = r["h"], r["reach"]
    res["paths"] = rh.get("paths", 0)
    res["z3_checks"] = rh.get("z3_checks", 0) + rr.get("z3_checks", 0)
    res["z3_time_s"] = round(rh.get("z3_time", 0) + rr.get("z3_time", 0), 3)
    res["cpu_s"] = round(rh.get("cpu_s", 0) + rr.get("cpu_s", 0), 2)
    res["engine_state"] = rh["state"]
    reached = rr["state"] == "POST_FAIL" and "REACHED" in rr.get("returns", "")
    res["twin"] = "reached" if reached else rr["state"]
    if reached and rr.get("call"):
        res["twin_witness"] = rr["call"].replace("reach(", "h(", 1)

    st = rh["state"]
    if st in ("POST_FAIL", "EXEC_ERR", "POST_ERR"):
        call = rh.get("call")
        res["counterexample"] = call
        res["label"] = (rh.get("returns") or "").strip("'\"") if st == "POST_FAIL" else "EXC"
        res["engine_message"] = rh["message"][:500]
        if not call:
            res.update(status="SPURIOUS", detail="no call in engine message: " + rh["message"][:300])
        else:
            rp = os.path.join(workdir, "replay_" + safe(h.hid) + ".py")
            with open(rp, "w") as f:
                f.write(src + REPLAY_TAIL.format(call=call))
            got, log = run_replay_source(rp)
            if got is None:
                res.update(status="SPURIOUS", detail="replay produced no result: " + log[-500:])
            elif got in ("''", "'REACHED'"):
                res.update(status="SPURIOUS", detail="counterexample does not reproduce on the real code")
            elif "HarnessSetupError" in got:
                res.update(status="ERROR", detail="harness setup failed: " + log[-600:])
            else:
                label = got.strip("'\"")
                res.update(status="REFUTED", label=label, replay_log=log[-1200:])
                dst = os.path.join(VERIF, "replay", prop)
                os.makedirs(dst, exist_ok=True)
                dstf = os.path.join(dst, safe(h.hid) + ".py")
                shutil.copy(rp, dstf)
                res["replay"] = dstf
    elif st == "CONFIRMED":
        res["status"] = "CONFIRMED" if reached else "VACUOUS"
        if not reached:
            res["detail"] = "reachability twin not refuted: " + rr["state"]
    elif st == "PRE_UNSAT":
        res.update(status="VACUOUS", detail=rh["message"][:300])
    elif st == "CANNOT_CONFIRM":
        res.update(status="UNKNOWN", detail="budget exhausted / solver unknown on some path")
    else:
        res.update(status="ERROR", detail=st + ": " + rh.get("message", "")[:500] + err[-500:])

    # functions of /repo driven by this harness (concrete run of the twin's witness)
    if reached and rr.get("call") and os.environ.get("VERIF_NOFUNCS") != "1":
        pp = os.path.join(workdir, "prof_" + safe(h.hid) + ".py")
        with open(pp, "w") as f:
            f.write(src + (PROFILE_TAIL % (REPO, len(REPO))).format(call=rr["call"]))
        try:
            q = subprocess.run([PY, pp], capture_output=True, text=True, timeout=60, env=plain_env())
            m = re.search(r"FUNCS: (.*)", q.stdout)
            if m:
                res["repo_functions"] = json.loads(m.group(1))
        except Exception:  # noqa: BLE001
            pass
    res["wall_s"] = round(time.time() - t0, 2)
    return res


# ----------------------------------------------------------------------------- cost table
COSTS = os.path.join(HERE, "costs.json")


def load_costs():
    if os.path.exists(COSTS):
        return json.load(open(COSTS))
    return {}


def record_costs(results, harnesses, tier="quick"):
    costs = load_costs()
    tmo = {h.hid: h.timeout for h in harnesses}
    for r in results:
        if r["status"] in ("CONFIRMED", "REFUTED", "UNKNOWN"):
            old = costs.get(r["id"])
            if tier == "quick" and old and old.get("tier") == "thorough" and old.get("status") == "CONFIRMED" and r["status"] == "UNKNOWN":
                # keep the thorough verdict, remember that it does not fit the quick budget
                old["cpu"] = max(old.get("cpu", 0), 46)
                continue
            costs[r["id"]] = {"status": r["status"], "cpu": r.get("cpu_s", 0), "timeout": tmo.get(r["id"], 0), "tier": tier}
    with open(COSTS, "w") as f:
        json.dump(costs, f, indent=0, sort_keys=True)


# ----------------------------------------------------------------------------- known findings
def load_known(prop):
    p = os.path.join(VERIF, "known_findings.json")
    if not os.path.exists(p):
        return []
    d = json.load(open(p))
    return [k for k in d.get("known", []) if k["property"] == prop]


def match_known(known, res):
    for k in known:
        if re.fullmatch(k["harness"], res["id"]) and re.fullmatch(k.get("label", ".*"), res.get("label", "")):
            return k
    return None


# ----------------------------------------------------------------------------- check
def run_check(prop, tier, only=None, keep=False, extra=None):
    t0 = time.time()
    seed = int(os.environ.get("VERIF_SEED", "0"))
    gen = importlib.import_module("gen_" + prop)
    harnesses = gen.harnesses(tier)
    if only:
        harnesses = [h for h in harnesses if only in h.hid]
    costs = {} if os.environ.get("VERIF_IGNORE_COSTS") == "1" else load_costs()
    deferred = []
    if tier == "quick" and not only:
        kept = []
        for h in harnesses:
            c = costs.get(h.hid)
            # a harness that did not decide within the quick budget on the reference tree is left to the thorough tier
            if c and c.get("status") == "UNKNOWN" and c.get("timeout", 0) >= h.timeout:
                deferred.append(h.hid)
            elif c and c.get("status") == "CONFIRMED" and c.get("cpu", 0) > 45:
                deferred.append(h.hid)  # decided, but too expensive for the every-change tier
            else:
                kept.append(h)
        harnesses = kept
    out_of_reach = []
    if tier == "thorough" and not only and os.environ.get("VERIF_RETRY_UNKNOWN") != "1":
        kept = []
        for h in harnesses:
            c = costs.get(h.hid)
            # undecided on the reference tree even with the thorough budget: stated as out of reach instead of burning the budget again
            if c and c.get("status") == "UNKNOWN" and c.get("timeout", 0) >= h.timeout and c.get("tier") == "thorough":
                out_of_reach.append(h.hid)
            else:
                kept.append(h)
        harnesses = kept
    for h in harnesses:
        c = costs.get(h.hid)
        if c and c.get("status") == "CONFIRMED":
            h.timeout = int(min(max(h.timeout if tier == "thorough" else 0, 20, 4 * c.get("cpu", 0)), 900))
    ids = [h.hid for h in harnesses]
    assert len(ids) == len(set(ids)), "duplicate harness ids: %s" % [i for i in ids if ids.count(i) > 1]
    workdir = tempfile.mkdtemp(prefix="verif_%s_" % prop)
    results = []
    pre = {}
    try:
        if hasattr(gen, "pre_checks"):
            pre = gen.pre_checks(tier, workdir)  # e.g. translator validation, kernel SMT queries
        skipped_gap = []
        if pre.get("undecidable_trees"):
            gap = set(pre.pop("undecidable_trees"))
            import catalogue as _cat
            gap_exprs = {t.expr for t in _cat.unit() + _cat.deep() + _cat.slot() if t.name in gap}
            keep_h = []
            for h in harnesses:
                if "/buffers/" not in h.hid and (h.tree in gap_exprs or any(("/%s/" % g) in h.hid for g in gap)):
                    skipped_gap.append(h.hid)
                else:
                    keep_h.append(h)
            harnesses = keep_h
            ids = [h.hid for h in harnesses]
            pre.setdefault("samples", []).append({"undecided_because_numpy_model_incomplete": skipped_gap})
        # long budgets first -> better packing; under a wall cap (thorough tier) cheap ones first, so that the cap cuts the
        # expensive tail and what was not started is reported as NOTRUN (never as held)
        cap = float(os.environ.get("VERIF_WALL_CAP", "7200" if tier == "thorough" else "0") or 0)
        order = sorted(harnesses, key=(lambda h: h.timeout) if cap else (lambda h: -h.timeout))

        def guarded(h):
            if cap and time.time() - t0 > cap:
                return {"id": h.hid, "status": "NOTRUN", "detail": "the wall cap of this tier (%d s) was reached before this harness started" % cap}
            return decide(h, workdir, prop)

        with cf.ThreadPoolExecutor(NCPU) as ex:
            futs = {ex.submit(guarded, h): h for h in order}
            for f in cf.as_completed(futs):
                try:
                    r = f.result()
                except Exception as e:  # noqa: BLE001
                    r = {"id": futs[f].hid, "status": "ERROR", "detail": repr(e)}
                results.append(r)
                if os.environ.get("VERIF_VERBOSE"):
                    print(
                        "  %-9s %-60s %6.1fs paths=%s %s"
                        % (r["status"], r["id"], r.get("wall_s", 0), r.get("paths"), r.get("label", "")),
                        flush=True,
                    )
    finally:
        if not keep:
            shutil.rmtree(workdir, ignore_errors=True)
        else:
            print("workdir kept:", workdir)
    results.sort(key=lambda r: ids.index(r["id"]))
    if os.environ.get("VERIF_RECORD_COSTS") == "1":
        record_costs(results, harnesses, tier)

    known = load_known(prop)
    violations = []
    known_hits = []
    for r in results:
        if r["status"] == "REFUTED":
            k = match_known(known, r)
            if k:
                r["known_finding"] = k["what"]
                known_hits.append((k, r))
            else:
                violations.append(r)
    for item in pre.get("violations", []):
        k = None
        for kk in known:
            if re.fullmatch(kk["harness"], item["id"]):
                k = kk
        if k:
            known_hits.append((k, item))
        else:
            violations.append(item)

    counts = {}
    for r in results:
        counts[r["status"]] = counts.get(r["status"], 0) + 1
    decided = [r for r in results if r["status"] in ("CONFIRMED", "REFUTED")]
    funcs = sorted({f for r in results for f in r.get("repo_functions", [])})
    samples = []
    for r in results[:400]:
        s = {
            k: r.get(k)
            for k in (
                "id",
                "status",
                "mode",
                "nonfinite_args",
                "tree",
                "bounds",
                "pre",
                "paths",
                "z3_checks",
                "z3_time_s",
                "cpu_s",
                "wall_s",
                "twin",
                "twin_witness",
                "label",
                "counterexample",
                "replay",
                "known_finding",
                "engine_message",
                "detail",
            )
            if r.get(k) not in (None, "")
        }
        samples.append(s)
    ev = {
        "property_id": prop,
        "tier": tier,
        "seed": seed,
        "level": "model_checking",
        "coverage": {
            "evaluations": len(results) + pre.get("evaluations", 0),
            "distinct_nontrivial": len(decided) + pre.get("decided", 0),
            "rule": "one evaluation = one symbolic harness (a concrete tree instantiation + scenario with all "
            "data/weights/factors/parameters symbolic) decided by CrossHair+z3 over every path within its bounds, "
            "or one SMT query of the kernel encoder; non-trivial = status CONFIRMED (all paths explored, "
            "reachability twin refuted) or REFUTED (counterexample replayed on the unpatched code); "
            "UNKNOWN/VACUOUS/SPURIOUS are not counted",
            "samples": samples,
            "status_counts": counts,
            "exhaustive": False,
            "paths_explored": sum(r.get("paths", 0) or 0 for r in results),
            "solver_queries": sum(r.get("z3_checks", 0) or 0 for r in results) + pre.get("solver_queries", 0),
            "solver_time_s": round(sum(r.get("z3_time_s", 0) or 0 for r in results) + pre.get("solver_time_s", 0), 2),
            "engine_cpu_s": round(sum(r.get("cpu_s", 0) or 0 for r in results), 1),
            "repo_functions_encoded": funcs,
            "inconclusive": [r["id"] for r in results if r["status"] not in ("CONFIRMED", "REFUTED")],
            "not_run_wall_cap": [r["id"] for r in results if r["status"] == "NOTRUN"],
            "deferred_to_thorough": deferred,
            "out_of_reach_at_thorough_budget": out_of_reach,
            "kernel_queries": pre.get("samples", []),
            "known_findings_hit": [{"harness": r["id"], "what": k["what"]} for k, r in known_hits],
        },
        "assumptions": getattr(gen, "ASSUMPTIONS", [])
        + [
            "CrossHair 0.0.110 + z3 model Python semantics faithfully (confirmations are not replayed; counterexamples are)",
            "real mode: floats are mathematical reals (no rounding, no symbolic NaN/inf); ieee mode: bit-precise Float64",
            "engine stubs: math.floor stays symbolic; f-string of symbolic -> '<symbolic>'; JsonFormatException "
            "without json.dumps; Factory.specialize and construction of empty concrete trees run untraced",
        ],
        "wall_s": round(time.time() - t0, 1),
        "violations": len(violations),
    }
    evdir = os.environ.get("VERIF_EVIDENCE_DIR") or os.path.join(VERIF, "evidence")   # experiments on changed trees write elsewhere
    os.makedirs(evdir, exist_ok=True)
    with open(os.path.join(evdir, prop + ".json"), "w") as f:
        json.dump(ev, f, indent=1, default=str)

    print(
        "%s tier=%s harnesses=%d %s  pre=%s wall=%.0fs"
        % (prop, tier, len(results), counts, {k: v for k, v in pre.items() if k in ("evaluations", "decided")}, time.time() - t0)
    )
    for r in results:
        if r["status"] in ("ERROR", "VACUOUS", "SPURIOUS"):
            print("  %s %s: %s" % (r["status"], r["id"], str(r.get("detail", ""))[-700:]))
    for k, r in known_hits:
        print("KNOWN-FINDING: property=%s %s [%s %s]" % (prop, k["what"], r["id"], r.get("label", "")))
    for r in violations:
        print("VIOLATION property=%s replay=%s" % (prop, r.get("replay", "-")))
        print("   harness=%s label=%s call=%s" % (r["id"], r.get("label"), r.get("counterexample")))
    if violations:
        return 1
    n_err = counts.get("ERROR", 0)
    if n_err or (not decided and not pre.get("decided")):
        print("HARNESS-ERROR: %d engine errors, %d decided" % (n_err, len(decided)))
        return 2
    return 0


def main():
    ap = argparse.ArgumentParser()
    ap.add_argument("prop")
    ap.add_argument("--tier", default=os.environ.get("VERIF_TIER", "quick"))
    ap.add_argument("--only")
    ap.add_argument("--keep", action="store_true")
    ap.add_argument("--replay")
    a = ap.parse_args()
    if a.replay:
        got, log = run_replay_source(a.replay)
        print(log)
        if got in ("''", "'REACHED'"):
            print("replay: property holds on this input")
            sys.exit(0)
        print("VIOLATION property=%s replay=%s" % (a.prop, a.replay))
        sys.exit(1)
    sys.exit(run_check(a.prop, a.tier, a.only, a.keep))


if __name__ == "__main__":
    main()
