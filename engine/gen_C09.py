"""C09 equality is exactly equality of aggregated content."""
import catalogue as cat
from gen_common import SETUP, SPECIAL_XY, bounds_text, data_params
from run import Harness

ASSUMPTIONS = [
    "pairs are built with ed() so that exactly one slot differs: numeric slots are symbolic Float64 (ieee mode: NaN, inf, -0.0 "
    "included), keys and lengths are symbolic ints over small ranges",
    "expected truth value: numbers equal or both NaN, keys equal, lengths equal",
]

C09_SETUP = SETUP + '''
C0 = lambda: H.Count.ed(0.0)
C1 = lambda: H.Count.ed(1.0)
CATS = ["a", "b", "c"]
NUMK = [1.0, 2.5, "nan"]

def same(x, y):
    return x == y or (x != x and y != y)
'''

# numeric slots: name -> (builder expr over v, needs-nonnegative)
NUM = {
    "Count.entries": ("H.Count.ed(v)", True),
    "Sum.entries": ("H.Sum.ed(v, 1.5)", True),
    "Sum.sum": ("H.Sum.ed(2.0, v)", False),
    "Average.entries": ("H.Average.ed(v, 1.5)", True),
    "Average.mean": ("H.Average.ed(2.0, v)", False),
    "Deviate.entries": ("H.Deviate.ed(v, 1.5, 0.5)", True),
    "Deviate.mean": ("H.Deviate.ed(2.0, v, 0.5)", False),
    "Deviate.variance": ("H.Deviate.ed(2.0, 1.5, v)", False),
    "Minimize.entries": ("H.Minimize.ed(v, 1.5)", True),
    "Minimize.min": ("H.Minimize.ed(2.0, v)", False),
    "Maximize.entries": ("H.Maximize.ed(v, 1.5)", True),
    "Maximize.max": ("H.Maximize.ed(2.0, v)", False),
    "Bag.entries": ('H.Bag.ed(v, {1.0: 1.0}, "N")', True),
    "Bag.weight": ('H.Bag.ed(2.0, {1.0: 1.0, 2.5: v}, "N")', False),
    "Bag.nanweight": ('H.Bag.ed(2.0, {1.0: 1.0, "nan": v}, "N")', False),
    "Bag.strweight": ('H.Bag.ed(2.0, {"a": 1.0, "b": v}, "S")', False),
    "Bin.entries": ("H.Bin.ed(0.0, 1.0, v, [C1(), C0()], C0(), C0(), C0())", True),
    "Bin.low": ("H.Bin.ed(v, 8.0, 1.0, [C1(), C0()], C0(), C0(), C0())", "lt8"),
    "Bin.high": ("H.Bin.ed(-8.0, v, 1.0, [C1(), C0()], C0(), C0(), C0())", "gtm8"),
    "Bin.values[0]": ("H.Bin.ed(0.0, 1.0, 1.0, [H.Count.ed(v), C0()], C0(), C0(), C0())", True),
    "Bin.values[last]": ("H.Bin.ed(0.0, 1.0, 1.0, [C1(), C0(), H.Count.ed(v)], C0(), C0(), C0())", True),
    "Bin.underflow": ("H.Bin.ed(0.0, 1.0, 1.0, [C1()], H.Count.ed(v), C0(), C0())", True),
    "Bin.overflow": ("H.Bin.ed(0.0, 1.0, 1.0, [C1()], C0(), H.Count.ed(v), C0())", True),
    "Bin.nanflow": ("H.Bin.ed(0.0, 1.0, 1.0, [C1()], C0(), C0(), H.Count.ed(v))", True),
    "Bin.values.Sum.sum": ("H.Bin.ed(0.0, 1.0, 1.0, [H.Sum.ed(1.0, v)], C0(), C0(), C0())", False),
    "Bin.Bin.values[0]": ("H.Bin.ed(0.0, 1.0, 1.0, [H.Bin.ed(0.0, 1.0, 1.0, [C1(), H.Count.ed(v)], C0(), C0(), C0())], C0(), C0(), C0())", True),
    "SparselyBin.entries": ('H.SparselyBin.ed(1.0, v, "Count", {0: C1()}, C0(), 0.0)', True),
    "SparselyBin.binWidth": ('H.SparselyBin.ed(v, 1.0, "Count", {0: C1()}, C0(), 0.0)', "pos"),
    "SparselyBin.origin": ('H.SparselyBin.ed(1.0, 1.0, "Count", {0: C1()}, C0(), v)', False),
    "SparselyBin.bins[0]": ('H.SparselyBin.ed(1.0, 1.0, "Count", {0: H.Count.ed(v), 3: C1()}, C0(), 0.0)', True),
    "SparselyBin.bins[-2]": ('H.SparselyBin.ed(1.0, 1.0, "Count", {-2: H.Count.ed(v), 3: C1()}, C0(), 0.0)', True),
    "SparselyBin.nanflow": ('H.SparselyBin.ed(1.0, 1.0, "Count", {0: C1()}, H.Count.ed(v), 0.0)', True),
    "SparselyBin.bins.Average.mean": ('H.SparselyBin.ed(1.0, 1.0, "Average", {0: H.Average.ed(1.0, v)}, C0(), 0.0)', False),
    "CentrallyBin.entries": ("H.CentrallyBin.ed(v, [(0.0, C1()), (2.0, C0())], C0())", True),
    "CentrallyBin.center": ("H.CentrallyBin.ed(1.0, [(0.0, C1()), (v, C0())], C0())", "notnan"),
    "CentrallyBin.bins[1]": ("H.CentrallyBin.ed(1.0, [(0.0, C1()), (2.0, H.Count.ed(v))], C0())", True),
    "CentrallyBin.nanflow": ("H.CentrallyBin.ed(1.0, [(0.0, C1()), (2.0, C0())], H.Count.ed(v))", True),
    "IrregularlyBin.entries": ("H.IrregularlyBin.ed(v, [(-INF, C1()), (1.0, C0())], C0())", True),
    "IrregularlyBin.threshold": ("H.IrregularlyBin.ed(1.0, [(-INF, C1()), (v, C0())], C0())", False),
    "IrregularlyBin.bins[1]": ("H.IrregularlyBin.ed(1.0, [(-INF, C1()), (1.0, H.Count.ed(v))], C0())", True),
    "IrregularlyBin.nanflow": ("H.IrregularlyBin.ed(1.0, [(-INF, C1()), (1.0, C0())], H.Count.ed(v))", True),
    "Stack.entries": ("H.Stack.ed(v, [(-INF, C1()), (1.0, C0())], C0())", True),
    "Stack.threshold": ("H.Stack.ed(1.0, [(-INF, C1()), (v, C0())], C0())", False),
    "Stack.bins[1]": ("H.Stack.ed(1.0, [(-INF, C1()), (1.0, H.Count.ed(v))], C0())", True),
    "Stack.nanflow": ("H.Stack.ed(1.0, [(-INF, C1()), (1.0, C0())], H.Count.ed(v))", True),
    "Fraction.entries": ("H.Fraction.ed(v, C1(), C1())", True),
    "Fraction.numerator": ("H.Fraction.ed(1.0, H.Count.ed(v), C1())", True),
    "Fraction.denominator": ("H.Fraction.ed(1.0, C1(), H.Count.ed(v))", True),
    "Select.entries": ("H.Select.ed(v, C1())", True),
    "Select.cut": ("H.Select.ed(1.0, H.Count.ed(v))", True),
    "Categorize.entries": ('H.Categorize.ed(v, "Count", {"a": C1()})', True),
    "Categorize.bins[a]": ('H.Categorize.ed(1.0, "Count", {"a": H.Count.ed(v), "b": C1()})', True),
    "Label.entries": ("H.Label.ed(v, {'a': C1(), 'b': C0()})", True),
    "Label.pairs[b]": ("H.Label.ed(1.0, {'a': C1(), 'b': H.Count.ed(v)})", True),
    "UntypedLabel.entries": ("H.UntypedLabel.ed(v, {'a': C1(), 'b': H.Sum.ed(1.0, 1.0)})", True),
    "UntypedLabel.pairs[b]": ("H.UntypedLabel.ed(1.0, {'a': C1(), 'b': H.Sum.ed(1.0, v)})", False),
    "Index.entries": ("H.Index.ed(v, C1(), C0())", True),
    "Index.values[1]": ("H.Index.ed(1.0, C1(), H.Count.ed(v))", True),
    "Branch.entries": ("H.Branch.ed(v, C1(), H.Sum.ed(1.0, 1.0))", True),
    "Branch.values[1]": ("H.Branch.ed(1.0, C1(), H.Sum.ed(1.0, v))", False),
}

S1 = "H.Sum.ed(1.0, 1.0)"
SV = "H.Sum.ed(1.0, v)"
NUM.update({
    "Bin.values.Sum": (f"H.Bin.ed(0.0, 1.0, 2.0, [{S1}, {SV}], C0(), C0(), C0())", False),
    "Bin.underflow.Sum": (f"H.Bin.ed(0.0, 1.0, 1.0, [C1()], {SV}, C0(), C0())", False),
    "Bin.overflow.Sum": (f"H.Bin.ed(0.0, 1.0, 1.0, [C1()], C0(), {SV}, C0())", False),
    "Bin.nanflow.Sum": (f"H.Bin.ed(0.0, 1.0, 1.0, [C1()], C0(), C0(), {SV})", False),
    "SparselyBin.nanflow.Sum": (f'H.SparselyBin.ed(1.0, 1.0, "Count", {{0: C1()}}, {SV}, 0.0)', False),
    "CentrallyBin.bins.Sum": (f"H.CentrallyBin.ed(2.0, [(0.0, {S1}), (2.0, {SV})], C0())", False),
    "CentrallyBin.nanflow.Sum": (f"H.CentrallyBin.ed(1.0, [(0.0, C1()), (2.0, C0())], {SV})", False),
    "IrregularlyBin.bins.Sum": (f"H.IrregularlyBin.ed(2.0, [(-INF, {S1}), (1.0, {SV})], C0())", False),
    "IrregularlyBin.nanflow.Sum": (f"H.IrregularlyBin.ed(1.0, [(-INF, C1()), (1.0, C0())], {SV})", False),
    "Stack.bins.Sum": (f"H.Stack.ed(2.0, [(-INF, {S1}), (1.0, {SV})], C0())", False),
    "Stack.nanflow.Sum": (f"H.Stack.ed(1.0, [(-INF, C1()), (1.0, C0())], {SV})", False),
    "Fraction.numerator.Sum": (f"H.Fraction.ed(1.0, {SV}, {S1})", False),
    "Fraction.denominator.Sum": (f"H.Fraction.ed(1.0, {S1}, {SV})", False),
    "Select.cut.Sum": (f"H.Select.ed(1.0, {SV})", False),
    "Categorize.bins.Sum": (f'H.Categorize.ed(2.0, "Sum", {{"a": {S1}, "b": {SV}}})', False),
    "Label.pairs.Sum": (f"H.Label.ed(1.0, {{'a': {S1}, 'b': {SV}}})", False),
    "Index.values.Sum": (f"H.Index.ed(1.0, {S1}, {SV})", False),
    "Branch.values[0].Sum": (f"H.Branch.ed(1.0, {SV}, C1())", False),
    "Fraction.denominator.Bin": (f"H.Fraction.ed(1.0, C1(), H.Bin.ed(0.0, 1.0, 1.0, [C1(), H.Count.ed(v)], C0(), C0(), C0()))", True),
})

# key / length slots over ints: name -> (builder over k, range lo, hi)
KEYS = {
    "SparselyBin.key": ('H.SparselyBin.ed(1.0, 1.0, "Count", {k: C1(), 7: C0()}, C0(), 0.0)', -2, 2),
    "Categorize.key": ('H.Categorize.ed(1.0, "Count", {CATS[k]: C1(), "z": C0()})', 0, 2),
    "Bag.key": ('H.Bag.ed(1.0, {NUMK[k]: 1.0}, "N")', 0, 2),
    "Bag.range": ('H.Bag.ed(0.0, {}, ["N", "S", "N2"][k])', 0, 2),
    "Label.key": ("H.Label.ed(1.0, {CATS[k]: C1(), 'z': C0()})", 0, 2),
    "UntypedLabel.key": ("H.UntypedLabel.ed(1.0, {CATS[k]: C1(), 'z': C0()})", 0, 2),
    "Bin.length": ("H.Bin.ed(0.0, 1.0, 1.0, [C1()] + [C0() for _ in range(k)], C0(), C0(), C0())", 0, 2),
    "IrregularlyBin.length": ("H.IrregularlyBin.ed(1.0, [(-INF, C1())] + [(float(i), C0()) for i in range(k)], C0())", 0, 2),
    "Stack.length": ("H.Stack.ed(1.0, [(-INF, C1())] + [(float(i), C0()) for i in range(k)], C0())", 0, 2),
    "CentrallyBin.length": ("H.CentrallyBin.ed(1.0, [(0.0, C1()), (1.0, C0())] + [(float(i + 2), C0()) for i in range(k)], C0())", 0, 2),
    "Index.length": ("H.Index.ed(1.0, *([C1()] + [C0() for _ in range(k)]))", 0, 2),
    "Branch.length": ("H.Branch.ed(1.0, *([C1()] + [C0() for _ in range(k)]))", 0, 2),
    "SparselyBin.extra-bin": ('H.SparselyBin.ed(1.0, 1.0, "Count", dict([(0, C1())] + [(i + 1, C0()) for i in range(k)]), C0(), 0.0)', 0, 2),
    "Categorize.extra-bin": ('H.Categorize.ed(1.0, "Count", dict([("a", C1())] + [(CATS[i + 1], C0()) for i in range(k)]))', 0, 2),
    "Bin.values:type": ("H.Bin.ed(0.0, 1.0, 0.0, [[C0, lambda: H.Sum.ed(0.0, 0.0), lambda: H.Average.ed(0.0, 0.0)][k]()], C0(), C0(), C0())", 0, 2),
    "Categorize.empty.bins:type": ('H.Categorize.ed(0.0, ["Count", "Sum", "Average"][k], {})', 0, 2),
    "SparselyBin.empty.bins:type": ('H.SparselyBin.ed(1.0, 0.0, ["Count", "Sum", "Average"][k], {}, C0(), 0.0)', 0, 2),
    "Count.transform": ("H.Count([D.identity, lambda w: 2 * w, lambda w: w * w][k])", 0, 2),
    "Bin.values.Count.transform": ("H.Bin(2, 0.0, 2.0, qx, H.Count([D.identity, lambda w: 2 * w, lambda w: w * w][k]))", 0, 2),
    "Bin.nanflow.Count.transform": ("H.Bin(2, 0.0, 2.0, qx, H.Count(), H.Count(), H.Count(), H.Count([D.identity, lambda w: 2 * w, lambda w: w * w][k]))", 0, 2),
    "Label.Bin.Count.transform": ("H.Label(a=H.Bin(2, 0.0, 2.0, qx, H.Count([D.identity, lambda w: 2 * w, lambda w: w * w][k])))", 0, 2),
    "type": ("[C0, lambda: H.Sum.ed(0.0, 0.0), lambda: H.Average.ed(0.0, NAN), lambda: H.Minimize.ed(0.0, NAN), lambda: H.Bag.ed(0.0, {}, 'N')][k]()", 0, 4),
}

LAWS = """
e = (a == b)
if e and not expected: return "equal-although-content-differs"
if expected and not e: return "unequal-although-content-same"
if (b == a) != e: return "not-symmetric"
if (a != b) == e: return "ne-is-not-negation-of-eq"
if not (a == a): return "not-reflexive"
if a != a: return "ne-reflexive"
"""


def numeric(name, expr, cond, timeout=40):
    pre = []
    for v in ("v1", "v2"):
        if cond is True:
            pre.append(f"not ({v} < 0.0)")
        elif cond == "lt8":
            pre.append(f"{v} < 8.0")
        elif cond == "gtm8":
            pre.append(f"{v} > -8.0")
        elif cond == "pos":
            pre.append(f"{v} > 0.0")
        elif cond == "notnan":
            pre.append(f"{v} == {v}")
    body = f"""
B = lambda v: {expr}
a = B(v1); b = B(v2)
expected = same(v1, v2)
""" + LAWS
    # Deviate.ed multiplies variance by entries: FP multiplication is out of z3's reach, so these slots use the
    # real model with nan/+-inf as concrete alternatives
    mode = "real" if name.startswith("Deviate") else "ieee"
    return Harness(f"C09/num/{name}", [("v1", "float"), ("v2", "float")], " and ".join(pre) or "True", body, mode=mode,
                   timeout=timeout, setup=C09_SETUP, tree=expr, special=r"^v[12](_\d+)?$" if mode == "real" else None,
                   bounds=f"slot {name}: v1, v2 " + ("any Float64" if mode == "ieee" else "reals + nan/+-inf") + (f" with {pre[0]}" if pre else ""))


def keyed(name, expr, lo, hi, timeout=40):
    body = f"""
B = lambda k: {expr}
a = B(k1); b = B(k2)
expected = (k1 == k2)
""" + LAWS
    return Harness(f"C09/key/{name}", [("k1", "int"), ("k2", "int")], f"{lo} <= k1 <= {hi} and {lo} <= k2 <= {hi}", body,
                   mode="real", timeout=timeout, setup=C09_SETUP, tree=expr, bounds=f"slot {name}: k1, k2 in {lo}..{hi}")


def tolerance(name, expr, cond, timeout=60):
    pre = []
    for v in ("v1", "v2"):
        if cond is True:
            pre.append(f"{v} >= 0.0")
        elif cond == "lt8":
            pre.append(f"{v} < 8.0")
        elif cond == "gtm8":
            pre.append(f"{v} > -8.0")
        elif cond == "pos":
            pre.append(f"{v} > 0.0")
    body = f"""
B = lambda v: {expr}
a = B(v1); b = B(v2)
U.relativeTolerance = 0.0; U.absoluteTolerance = 0.0
e0 = (a == b)
res = ""
for rel, ab in ((1e-12, 0.0), (0.0, 1e-12), (1e-12, 1e-12)):
    U.relativeTolerance = rel; U.absoluteTolerance = ab
    e1 = (a == b)
    if e0 and not e1: res = "tolerance-narrowed-equality"
    if (b == a) != e1: res = "not-symmetric-under-tolerance"
    if not (a == a): res = "not-reflexive-under-tolerance"
U.relativeTolerance = 0.0; U.absoluteTolerance = 0.0
if res: return res
"""
    return Harness(f"C09/tol/{name}", [("v1", "float"), ("v2", "float")], " and ".join(pre) or "True", body, mode="real",
                   timeout=timeout, setup=C09_SETUP, tree=expr, bounds=f"slot {name}: v1, v2 finite reals; tolerances (1e-12,0),(0,1e-12),(1e-12,1e-12)")


def _setup(tree):
    return C09_SETUP + f"MK = lambda: {tree.expr}\n"


def clones(tree, mode="real", timeout=60):
    p, pre, code = data_params(tree, 1, mode=mode, special=(mode == "real"))
    body = code + """
a, a2 = fresh(MK, 2)
a.fill(data[0]); a2.fill(data[0])
if not (a == a): return "not-reflexive"
if not (a == a2): return "identically-filled-twin-unequal"
if not (a == a.copy()): return "copy-unequal"
if not (a.copy() == a): return "copy-unequal-reversed"
im = a.toImmutable()
if not (im == Factory.fromJson(J(a))): return "json-reload-unequal-in-immutable-form"
if not (im == im.copy()): return "immutable-copy-unequal"
if a != a.copy(): return "ne-true-for-copy"
z = a.zero()
if (a == z) != jeq(J(a), J(z)): return "eq-vs-json-disagree-for-zero"
"""
    return Harness(f"C09/clones/{tree.name}/{mode}", p, " and ".join(pre), body, mode=mode, timeout=timeout, setup=_setup(tree),
                   tree=tree.expr, special=SPECIAL_XY if mode == "real" else None,
                   bounds=bounds_text(tree, 1, data="finite reals + nan/+inf/-inf" if mode == "real" else "any float64"))


def clones_concrete(tree, timeout=40):
    """copy / immutable reload / pickle clone equal the original, on concrete records (incl. NaN, +-inf) chosen by a selector;
    the comparisons run untraced because identity-based hashing (e.g. of NaN) is not reproducible path by path under the tracer"""
    body = """
import pickle
k = sel(k, 0, 1, 2, 3, 4)
with NT():
    recs = [(0.5, 1.5, "a", 1.0), (NAN, NAN, "b", NAN), (INF, -INF, "a", 2.5), (-1.0, 0.25, "b", 1.0), (1.75, NAN, "a", NAN)]
    a = MK()
    for r in recs[: k + 1]: a.fill(r)
    a0 = MK()
    for r in reversed(recs[: k + 1]): a0.fill(r)
    res = ""
    cp = a.copy()
    if not (a == cp) or not (cp == a) or (a != cp): res = "copy-unequal"
    im = a.toImmutable()
    if not (im == Factory.fromJson(a.toJson())): res = res or "json-reload-unequal-in-immutable-form"
    if (a == im) != (im == a): res = res or "live-vs-immutable-comparison-not-symmetric"
    if (a != im) == (a == im): res = res or "live-vs-immutable-ne-is-not-negation"
    if not (im == im.copy()): res = res or "immutable-copy-unequal"
    pc = pickle.loads(pickle.dumps(a))
    if not (a == pc) or not (pc == a): res = res or "pickle-clone-unequal"
    if not (a == a): res = res or "not-reflexive"
    if jeq(a.toJson(), a0.toJson()) and not (a == a0): res = res or "same-content-filled-in-other-order-unequal"
    z = a.zero()
    if (a == z) != jeq(a.toJson(), z.toJson()): res = res or "eq-vs-json-disagree-for-zero"
if res: return res
"""
    return Harness(f"C09/clones-concrete/{tree.name}", [("k", "int")], "0 <= k <= 4", body, timeout=timeout, setup=_setup(tree),
                   tree=tree.expr, bounds=bounds_text(tree, 5, data="1..5 concrete records incl. NaN/+-inf (prefix length by selector)"))


def harnesses(tier):
    out = []
    for t in cat.unit() + cat.deep() + ([] if tier == "quick" else cat.slot()[::2]):
        out.append(clones_concrete(t))
    for n, (e, c) in NUM.items():
        out.append(numeric(n, e, c))
    for n, (e, lo, hi) in KEYS.items():
        out.append(keyed(n, e, lo, hi))
    tol = list(NUM.items())
    if tier == "quick":
        tol = [x for i, x in enumerate(tol) if i % 3 == 0]
    for n, (e, c) in tol:
        out.append(tolerance(n, e, c))
    for t in cat.unit():
        out.append(clones(t))
        if t.cmp_only:
            out.append(clones(t, mode="ieee"))
    for t in cat.deep() + ([] if tier == "quick" else cat.slot()[::3]):
        out.append(clones(t, timeout=60 if tier == "quick" else 200))
    return out


def pre_checks(tier, workdir):
    import kernels

    return kernels.run_C09(tier, workdir)
