"""Harness prelude: imported by every generated harness module (``from vp import *``).

Under the symbolic engine (VERIF_SYMBOLIC=1, set by chrun.py) it installs the in-process stubs
3 and 4 of DESIGN.md section 1 (JsonFormatException without json.dumps of the symbolic document;
Factory.specialize executed untraced).  Under replay (plain CPython) nothing is patched: the
counterexample runs against the unmodified library and the real numpy.
"""
import math
import os
import sys

SYMBOLIC = os.environ.get("VERIF_SYMBOLIC") == "1"

import histogrammar as H  # noqa: E402
import histogrammar.defs as D  # noqa: E402
import histogrammar.convenience as HC  # noqa: E402
import histogrammar.util as U  # noqa: E402
from histogrammar.defs import ContainerException, Factory, JsonFormatException  # noqa: E402

PRELUDE_STUBS = []
if SYMBOLIC:
    from crosshair import NoTracing
    from crosshair.util import CrossHairInternal as _CHInternal

    _spec = D.Factory.specialize

    def _fast_specialize(self):
        # same code, untraced (10x faster per path); if it does meet a symbolic value after all
        # (e.g. a bins mapping rebuilt by a comprehension), fall back to the traced run: specialize is idempotent
        try:
            with NoTracing():
                return _spec(self)
        except _CHInternal:
            pass
        return _spec(self)

    D.Factory.specialize = _fast_specialize

    def _jfe_init(self, x, context):
        Exception.__init__(self, "wrong JSON format for " + str(context))

    D.JsonFormatException.__init__ = _jfe_init
    PRELUDE_STUBS = [
        "Factory.specialize runs untraced (same code; touches no symbolic value)",
        "JsonFormatException.__init__ does not json.dumps the offending document",
    ]

NAN = float("nan")
INF = float("inf")
nan = NAN  # counterexample reprs use these names
inf = INF

# quantity functions on tuple records
qx = lambda d: d[0]  # noqa: E731
qy = lambda d: d[1]  # noqa: E731
qz = lambda d: d[2]  # noqa: E731


def finite(*xs):
    for x in xs:
        if not math.isfinite(x):
            return False
    return True


def J(h):
    return h.toJson()


def _close(a, b):
    if isinstance(a, bool) or isinstance(b, bool):
        return a == b
    if isinstance(a, (int, float)) and isinstance(b, (int, float)):
        if a == b:
            return True
        if a != a and b != b:
            return True
        if math.isinf(a) or math.isinf(b):
            return False
        return abs(a - b) <= 1e-9 * max(abs(a), abs(b)) + 1e-12
    if isinstance(a, dict) and isinstance(b, dict):
        if set(a.keys()) != set(b.keys()):
            return False
        return all(_close(a[k], b[k]) for k in a)
    if isinstance(a, (list, tuple)) and isinstance(b, (list, tuple)):
        return len(a) == len(b) and all(_close(x, y) for x, y in zip(a, b))
    return a == b


def _exact(a, b):
    """Structural equality of two JSON-like documents, written as an explicit linear walk: CrossHair's
    generic Mapping.__eq__ on its dict stand-ins is quadratic and dominated the per-path cost."""
    if isinstance(a, dict):
        if not isinstance(b, dict) or len(a) != len(b):
            return False
        ia = sorted(a.items(), key=_key)
        ib = sorted(b.items(), key=_key)
        for (ka, va), (kb, vb) in zip(ia, ib):
            if ka != kb:
                return False
            if not _exact(va, vb):
                return False
        return True
    if isinstance(a, (list, tuple)):
        if not isinstance(b, (list, tuple)) or len(a) != len(b):
            return False
        for x, y in zip(a, b):
            if not _exact(x, y):
                return False
        return True
    if isinstance(b, (dict, list, tuple)):
        return False
    return a == b


def _key(kv):
    return str(kv[0])


def jeq(a, b):
    """JSON-content equality: exact under the symbolic engine (real arithmetic is exact there),
    tolerant of floating-point rounding (rel 1e-9) when a counterexample is replayed concretely."""
    if SYMBOLIC:
        return _exact(a, b)
    return _close(a, b)


def jclose(a, b):
    """rounding-tolerant JSON equality in both modes: for concrete (untraced) comparisons of two different floating-point
    computation orders (e.g. real numpy vs row-wise)"""
    return _close(a, b)


def jsame(a, b):
    """exact JSON-content identity, also on replay: for assertions of the form "state left exactly as before",
    where no arithmetic may have happened at all (so no rounding tolerance applies)"""
    return _exact(a, b)


def sel(k, *vals):
    """Pick one of a finite list by a (symbolic) selector int."""
    n = len(vals)
    for i in range(n - 1):
        if k == i:
            return vals[i]
    return vals[n - 1]


def raises(f, *a):
    """Return the exception class name f(*a) raises, or None.  Only Exception is caught
    (CrossHair's path-steering exceptions are BaseException)."""
    try:
        f(*a)
    except Exception as e:  # noqa: BLE001
        return type(e).__name__
    return None


class _NullCtx:
    def __enter__(self):
        return self

    def __exit__(self, *a):
        return False


def NT():
    """Context: run a block untraced under the symbolic engine (only for code that touches
    no symbolic value, e.g. building an empty tree from concrete parameters); no-op on replay."""
    if SYMBOLIC:
        return NoTracing()
    return _NullCtx()


def fresh(mk, n=1):
    """n empty trees built from concrete parameters, untraced; the first-fill cross-reference walk
    of each (real code, concrete state) is also executed here, untraced, instead of on every path."""
    with NT():
        try:
            out = [mk() for _ in range(n)]
            for o in out:
                o._checkForCrossReferences()
        except Exception as e:  # noqa: BLE001
            raise HarnessSetupError("building the tree failed: %r" % (e,))
    return out


class HarnessSetupError(Exception):
    """The harness could not even build its (concrete, valid) tree: machinery problem, not a verdict."""
