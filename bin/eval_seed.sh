#!/bin/sh
# usage: bin/eval_seed.sh <Cxx> [extra checks...]  -- confirm a sub-agent's seeded change (tests pass, demo fails with / passes without),
# keep it under /verif/seeded/<Cxx>/, then run our check(s) against it (applied to /repo and undone straight afterwards).
ID="$1"; shift
WT=/tmp/mut/$ID
OUT=$WT/OUT
[ -f "$OUT/patch.diff" ] || git -C "$WT" diff > "$OUT/patch.diff"
cd "$WT" || exit 2
echo "--- existing tests with the change"
PYTHONPATH=$WT timeout 900 /venv/bin/python -m pytest -q -p no:cacheprovider --timeout=900 tests/test_basic.py tests/test_numpy.py -k "not Pandas" 2>&1 | tail -1
echo "--- demo with the change (expect exit 1)"
PYTHONPATH=$WT timeout 300 /venv/bin/python "$OUT/demo.py" > "$OUT/demo_with.log" 2>&1; echo "exit=$?"; tail -2 "$OUT/demo_with.log"
git -C "$WT" stash -q
echo "--- demo without the change (expect exit 0)"
PYTHONPATH=$WT timeout 300 /venv/bin/python "$OUT/demo.py" > "$OUT/demo_without.log" 2>&1; echo "exit=$?"
git -C "$WT" stash pop -q
mkdir -p /verif/seeded/$ID
git -C "$WT" diff > /verif/seeded/$ID/patch.diff
cp "$OUT/demo.py" /verif/seeded/$ID/demo.py
cp "$OUT/notes.md" /verif/seeded/$ID/notes.md 2>/dev/null
echo "--- our checks against it"
cd /verif && ./bin/try_seed.sh /verif/seeded/$ID/patch.diff "$ID" "$@"
