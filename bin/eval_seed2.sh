#!/bin/sh
# usage: bin/eval_seed2.sh <Cxx> <A|B> [extra checks...] -- round-2 seeds: /tmp/mut2/<Cxx>/OUT/<X>/{patch.diff,demo.py,notes.md}
ID="$1"; X="$2"; shift; shift
WT=${MUTROOT:-/tmp/mut2}/$ID
OUT=$WT/OUT/$X
cd "$WT" || exit 2
git -C "$WT" checkout -q -- . ; git -C "$WT" apply "$OUT/patch.diff" || { echo "patch does not apply in worktree"; exit 2; }
echo "--- existing tests with the change"
PYTHONPATH=$WT timeout 900 /venv/bin/python -m pytest -q -p no:cacheprovider --timeout=900 tests/test_basic.py tests/test_numpy.py -k "not Pandas" 2>&1 | tail -1
echo "--- demo with the change (expect exit 1)"
PYTHONPATH=$WT timeout 300 /venv/bin/python "$OUT/demo.py" > "$OUT/demo_with.log" 2>&1; echo "exit=$?"; tail -2 "$OUT/demo_with.log" | cut -c1-300
git -C "$WT" checkout -q -- .
echo "--- demo without the change (expect exit 0)"
PYTHONPATH=$WT timeout 300 /venv/bin/python "$OUT/demo.py" > "$OUT/demo_without.log" 2>&1; echo "exit=$?"
D=/verif/seeded/$ID-${ROUND:-r2}$X
mkdir -p $D
cp "$OUT/patch.diff" "$OUT/demo.py" $D/; cp "$OUT/notes.md" $D/ 2>/dev/null
echo "--- our checks against it"
cd /verif && ./bin/try_seed.sh $D/patch.diff "$ID" "$@"
