#!/bin/sh
# Creates /verif/.venv (overlay of /venv + /repo on sys.path + crosshair-tool from the offline wheelhouse).
# Idempotent, offline.  Every check calls it first (a fresh restore has no .venv).
set -e
V=/verif/.venv
if [ -x "$V/bin/python" ] && "$V/bin/python" -c 'import crosshair, z3, histogrammar, numpy' >/dev/null 2>&1; then
  exit 0
fi
(
  flock 9
  if [ -x "$V/bin/python" ] && "$V/bin/python" -c 'import crosshair, z3, histogrammar, numpy' >/dev/null 2>&1; then
    exit 0
  fi
  rm -rf "$V"
  /venv/bin/python -m venv "$V"
  SP=$("$V/bin/python" -c 'import sysconfig; print(sysconfig.get_paths()["purelib"])')
  printf '/venv/lib/python3.12/site-packages\n/repo\n' > "$SP/_overlay.pth"
  PIP_NO_INDEX=1 "$V/bin/pip" install -q --no-index --find-links /opt/veriftools/wheels crosshair-tool >/dev/null
  "$V/bin/python" -c 'import crosshair, z3, histogrammar, numpy'
) 9>/verif/.venv.lock
