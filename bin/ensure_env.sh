#!/bin/sh
# Creates /verif/.venv (overlay of /venv + /repo on sys.path + crosshair-tool from the offline wheelhouse).
# Idempotent, offline.  Every check calls it first (a fresh restore has no .venv).
set -e
# VERIF_REPO (default /repo) = the histogrammar tree to analyse; VERIF_VENV (default <this dir>/../.venv) = overlay location
HERE=$(cd "$(dirname "$0")/.." && pwd)
R=${VERIF_REPO:-/repo}
V=${VERIF_VENV:-$HERE/.venv}
ok() { [ -x "$V/bin/python" ] && [ "$("$V/bin/python" -c 'import crosshair, z3, numpy, histogrammar, os; print(os.path.dirname(os.path.dirname(histogrammar.__file__)))' 2>/dev/null)" = "$R" ]; }
if ok; then
  exit 0
fi
(
  flock 9
  if ok; then
    exit 0
  fi
  rm -rf "$V"
  /venv/bin/python -m venv "$V"
  SP=$("$V/bin/python" -c 'import sysconfig; print(sysconfig.get_paths()["purelib"])')
  printf '/venv/lib/python3.12/site-packages\n%s\n' "$R" > "$SP/_overlay.pth"
  PIP_NO_INDEX=1 "$V/bin/pip" install -q --no-index --find-links /opt/veriftools/wheels crosshair-tool >/dev/null
  ok
) 9>"$V.lock"
