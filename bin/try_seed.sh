#!/bin/sh
# usage: bin/try_seed.sh <patch.diff> <Cxx> [<Cyy> ...]   -- apply a seeded change to /repo, run the quick checks, undo it.
# Never commits anything; /repo is restored with `git checkout -- .` even when a check fails.
P="$1"; shift
cd /verif || exit 2
git -C /repo diff --quiet || { echo "refusing: /repo has uncommitted changes"; exit 2; }
git -C /repo apply "$P" 2>/dev/null || git -C /repo apply --3way "$P" || { echo "patch does not apply"; git -C /repo reset -q --hard HEAD ; exit 2; }
trap 'git -C /repo reset -q --hard HEAD ; git -C /repo status --short | head -3' EXIT INT TERM
for c in "$@"; do
  ./check "$c" --tier "${VERIF_TIER:-quick}" > "/tmp/seedrun_$c.log" 2>&1
  echo "== $c exit=$? $(grep -c '^VIOLATION' /tmp/seedrun_$c.log) violations"
  grep "harness=" "/tmp/seedrun_$c.log" | head -5
  grep "HARNESS-ERROR\|^  ERROR" "/tmp/seedrun_$c.log" | head -3
done
